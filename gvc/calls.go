package main

import (
	"fmt"
	"go/token"
	"go/types"
	"sort"
	"strings"

	"golang.org/x/tools/go/ssa"
)

// ---------------------------------------------------------------- maps

type mapKeys struct {
	dom, val, card       string
	domS, valS, ks, vs   string
	kt, vt               types.Type
}

func (ex *Exec) mapComps(mt *types.Map) mapKeys {
	kt, vt := ex.typ(mt.Key()), ex.typ(mt.Elem())
	ks, vs := ex.vc.sortOf(kt), ex.vc.sortOf(vt)
	id := sortIdent(ks) + "_" + sortIdent(vs)
	return mapKeys{dom: "MD:" + id, val: "MV:" + id, card: "ML:" + id,
		domS: "(Array Int (Array " + ks + " Bool))", valS: "(Array Int (Array " + ks + " " + vs + "))",
		ks: ks, vs: vs, kt: kt, vt: vt}
}

func (ex *Exec) doMakeMap(i *ssa.MakeMap) {
	mt := ex.typ(i.Type()).Underlying().(*types.Map)
	mk := ex.mapComps(mt)
	r := ex.newRef("map")
	st := ex.curState
	ex.set(st, mk.dom, mk.domS, sSto(ex.get(st, mk.dom, mk.domS), r, "((as const (Array "+mk.ks+" Bool)) false)"))
	ex.set(st, mk.card, "(Array Int Int)", sSto(ex.get(st, mk.card, "(Array Int Int)"), r, "0"))
	// values of absent keys are the zero value (canonical form)
	ex.set(st, mk.val, mk.valS, sSto(ex.get(st, mk.val, mk.valS), r, "((as const (Array "+mk.ks+" "+mk.vs+")) "+ex.vc.zeroOf(mk.vt)+")"))
	ex.bind(i, r)
}

func (ex *Exec) doLookup(i *ssa.Lookup) {
	x := ex.val(i.X)
	idx := ex.val(i.Index)
	mt, ok := ex.typ(i.X.Type()).Underlying().(*types.Map)
	if !ok {
		// string index
		ex.nopanic("nopanic.index", i.Pos(), sAnd("(<= 0 "+idx.T+")", "(< "+idx.T+" (slen "+x.T+"))"), "string index in range")
		ex.bind(i, sSel("(sbytes "+x.T+")", idx.T))
		return
	}
	mk := ex.mapComps(mt)
	st := ex.curState
	ex.permCheckMap(mk, x.T, false)
	in := sSel(sSel(ex.get(st, mk.dom, mk.domS), x.T), idx.T)
	v := sIte(in, sSel(sSel(ex.get(st, mk.val, mk.valS), x.T), idx.T), ex.vc.zeroOf(mk.vt))
	vn := ex.vc.define(ex.pfx+i.Name()+"_v", mk.vs, v)
	ex.vc.assume(sImp(ex.curReach, ex.typeInv(vn, mk.vt, st)))
	if i.CommaOk {
		okn := ex.vc.define(ex.pfx+i.Name()+"_ok", "Bool", in)
		ex.vals[i] = Val{Tup: []Val{{T: vn}, {T: okn}}}
	} else {
		ex.vals[i] = Val{T: vn}
	}
}

func (ex *Exec) doMapUpdate(i *ssa.MapUpdate) {
	m := ex.val(i.Map)
	k := ex.val(i.Key)
	v := ex.val(i.Value)
	mt := ex.typ(i.Map.Type()).Underlying().(*types.Map)
	ex.nopanic("nopanic.nilmap", i.Pos(), "(not (= "+m.T+" 0))", "assignment to entry in nil map")
	ex.mapStore(mt, m.T, k.T, v.T)
}

func (ex *Exec) mapStore(mt *types.Map, m, k, v string) {
	mk := ex.mapComps(mt)
	st := ex.curState
	ex.permCheckMap(mk, m, true)
	dom := ex.get(st, mk.dom, mk.domS)
	was := sSel(sSel(dom, m), k)
	card := ex.get(st, mk.card, "(Array Int Int)")
	ex.set(st, mk.card, "(Array Int Int)", sSto(card, m, sIte(was, sSel(card, m), "(+ "+sSel(card, m)+" 1)")))
	ex.set(st, mk.dom, mk.domS, sSto(dom, m, sSto(sSel(dom, m), k, "true")))
	vals := ex.get(st, mk.val, mk.valS)
	ex.set(st, mk.val, mk.valS, sSto(vals, m, sSto(sSel(vals, m), k, v)))
}

func (ex *Exec) mapDelete(mt *types.Map, m, k string) {
	mk := ex.mapComps(mt)
	st := ex.curState
	ex.permCheckMap(mk, m, true)
	dom := ex.get(st, mk.dom, mk.domS)
	was := sSel(sSel(dom, m), k)
	card := ex.get(st, mk.card, "(Array Int Int)")
	// delete on a nil map is a no-op; nil map has empty domain
	ex.set(st, mk.card, "(Array Int Int)", sSto(card, m, sIte(was, "(- "+sSel(card, m)+" 1)", sSel(card, m))))
	ex.set(st, mk.dom, mk.domS, sSto(dom, m, sSto(sSel(dom, m), k, "false")))
	vals := ex.get(st, mk.val, mk.valS)
	ex.set(st, mk.val, mk.valS, sSto(vals, m, sSto(sSel(vals, m), k, ex.vc.zeroOf(mk.vt))))
	// an in-flight iteration never yields a deleted key: handled in doNext through the live domain
}

// map iteration: arbitrary order, each key at most once, stops when every key still present was visited.
type rangeIter struct {
	mt      *types.Map
	m       string
	visKey  string // state component: visited set
	cntKey  string // state component: number of keys produced so far
	visSort string
	isStr   bool
	str     string
	posKey  string
}

func (ex *Exec) doRange(i *ssa.Range) {
	x := ex.val(i.X)
	if mt, ok := ex.typ(i.X.Type()).Underlying().(*types.Map); ok {
		mk := ex.mapComps(mt)
		it := &rangeIter{mt: mt, m: x.T, visKey: fmt.Sprintf("V:%s%s", ex.pfx, i.Name()), visSort: "(Array " + mk.ks + " Bool)", cntKey: fmt.Sprintf("VN:%s%s", ex.pfx, i.Name())}
		ex.rangeIters[i] = it
		ex.set(ex.curState, it.visKey, it.visSort, "((as const "+it.visSort+") false)")
		ex.set(ex.curState, it.cntKey, "Int", "0")
		ex.vals[i] = Val{T: "0"}
		return
	}
	// string iteration: position component
	it := &rangeIter{isStr: true, str: x.T, posKey: fmt.Sprintf("V:%s%s", ex.pfx, i.Name())}
	ex.rangeIters[i] = it
	ex.set(ex.curState, it.posKey, "Int", "0")
	ex.vals[i] = Val{T: "0"}
}

func (ex *Exec) doNext(i *ssa.Next) {
	rg, _ := i.Iter.(*ssa.Range)
	it := ex.rangeIters[rg]
	if it == nil {
		ex.vc.errorf("next on unknown iterator")
		return
	}
	st := ex.curState
	if it.isStr {
		ex.strNext(i, it)
		return
	}
	mk := ex.mapComps(it.mt)
	ex.permCheckMap(mk, it.m, false)
	vis := ex.get(st, it.visKey, it.visSort)
	dom := sSel(ex.get(st, mk.dom, mk.domS), it.m)
	ok := ex.vc.fresh(ex.pfx+i.Name()+"_ok", "Bool")
	k := ex.vc.fresh(ex.pfx+i.Name()+"_k", mk.ks)
	// ok  => k in dom, not visited ; !ok => every key in dom was visited
	ex.vc.assume(sImp(ex.curReach, sImp(ok, sAnd(sSel(dom, k), sNot(sSel(vis, k)), "(not (= "+it.m+" 0))"))))
	ex.vc.assume(sImp(ex.curReach, sImp(sNot(ok), fmt.Sprintf("(forall ((kk %s)) (! (=> (select %s kk) (select %s kk)) :pattern ((select %s kk))))", mk.ks, dom, vis, dom))))
	ex.set(st, it.visKey, it.visSort, sIte(ok, sSto(vis, k, "true"), vis))
	// finite-map cardinality: while no map of this type is written inside the loop, the keys produced so far are
	// distinct members of the domain, so their number stays below len(m) as long as another key is produced and
	// equals len(m) when the iteration ends.
	cnt := ex.get(st, it.cntKey, "Int")
	if l := ex.loopOfBlock(i.Block()); l != nil && !ex.vc.discover && !l.Mod[mk.dom] {
		card := sSel(ex.get(st, mk.card, "(Array Int Int)"), it.m)
		ex.vc.assume(sImp(ex.curReach, sAnd("(>= "+cnt+" 0)", sImp(ok, "(< "+cnt+" "+card+")"), sImp(sNot(ok), "(= "+cnt+" "+card+")"))))
		ex.vc.assume(sImp(ex.curReach, fmt.Sprintf("(forall ((kk %s)) (! (=> (select %s kk) (select %s kk)) :pattern ((select %s kk))))", mk.ks, vis, dom, vis)))
		ex.vc.assumptions["map iteration: the keys produced by one range loop over an unmodified map are distinct members of its domain, at most len(m) of them, exactly len(m) when the loop ends"] = true
	}
	ex.set(st, it.cntKey, "Int", sIte(ok, "(+ "+cnt+" 1)", cnt))
	v := ex.vc.define(ex.pfx+i.Name()+"_v", mk.vs, sSel(sSel(ex.get(st, mk.val, mk.valS), it.m), k))
	ex.vc.assume(sImp(ex.curReach, ex.typeInv(v, mk.vt, st)))
	ex.vc.assume(sImp(ex.curReach, ex.typeInv(k, mk.kt, st)))
	ex.vals[i] = Val{Tup: []Val{{T: ok}, {T: k}, {T: v}}}
}

// ---------------------------------------------------------------- calls

func (ex *Exec) doCall(v *ssa.Call, c *ssa.CallCommon, pos token.Pos) {
	var result Val
	defer func() {
		if v != nil {
			if _, have := ex.vals[v]; !have {
				ex.vals[v] = result
			}
			ex.afterCallGhost(v, c)
		}
	}()
	setResult := func(r Val) {
		result = r
		if v != nil {
			ex.vals[v] = r
		}
	}
	if c.IsInvoke() {
		setResult(ex.invokeCall(v, c, pos))
		return
	}
	switch callee := c.Value.(type) {
	case *ssa.Builtin:
		setResult(ex.builtinCall(v, c, callee, pos))
		return
	case *ssa.Function:
		setResult(ex.staticCall(v, c, callee, nil, pos))
		return
	case *ssa.MakeClosure:
		setResult(ex.staticCall(v, c, callee.Fn.(*ssa.Function), callee, pos))
		return
	}
	fv := ex.val(c.Value)
	if fv.Clo != nil {
		setResult(ex.staticCall(v, c, fv.Clo.Fn.(*ssa.Function), fv.Clo, pos))
		return
	}
	if fv.Fn != nil {
		setResult(ex.staticCall(v, c, fv.Fn, nil, pos))
		return
	}
	// call of an unknown function value: pure uninterpreted application (+ call log)
	setResult(ex.funcValueCall(v, c, fv, pos))
}

func (ex *Exec) args(c *ssa.CallCommon) []Val {
	var out []Val
	for _, a := range c.Args {
		out = append(out, ex.val(a))
	}
	return out
}

// funcValueCall: callbacks are assumed pure and deterministic: result = call_sig(f, args).
func (ex *Exec) funcValueCall(v *ssa.Call, c *ssa.CallCommon, fv Val, pos token.Pos) Val {
	sig := ex.typ(c.Value.Type()).Underlying().(*types.Signature)
	ex.nopanic("nopanic.nilfunc", pos, "(not (= "+fv.T+" 0))", "call of nil func value")
	args := ex.args(c)
	var ats []string
	for _, a := range args {
		ats = append(ats, a.T)
	}
	top := ex
	for top.parent != nil {
		top = top.parent
	}
	impure := top.vc.spec != nil && top.vc.spec.CallLog && top.vc.spec.Opts["impure"] != ""
	logIdx := ex.get(ex.curState, "LOGN", "Int")
	if impure {
		st := ex.curState
		ex.set(st, "LOGT0", "(Array Int Int)", sSto(ex.get(st, "LOGT0", "(Array Int Int)"), logIdx, ex.get(st, "CLK", "Int")))
	}
	ex.logCall(fv.T, sig, ats)
	var res []string
	if impure {
		// the callback may have state of its own: each logged call returns an arbitrary value, recorded in the log;
		// it may take time, but it does not touch library memory
		st := ex.curState
		for k := 0; k < sig.Results().Len(); k++ {
			srt := ex.vc.sortOf(sig.Results().At(k).Type())
			r := ex.vc.fresh(ex.pfx+"cbres", srt)
			key := fmt.Sprintf("LOGR%d:%s", k, sortIdent(srt))
			as := "(Array Int " + srt + ")"
			ex.set(st, key, as, sSto(ex.get(st, key, as), logIdx, r))
			res = append(res, r)
		}
		clk := ex.get(st, "CLK", "Int")
		nclk := ex.vc.fresh(ex.pfx+"clk_cb", "Int")
		ex.vc.assume("(>= " + nclk + " " + clk + ")")
		ex.set(st, "CLK", "Int", nclk)
		ex.set(st, "LOGT1", "(Array Int Int)", sSto(ex.get(st, "LOGT1", "(Array Int Int)"), logIdx, nclk))
		ex.vc.assumptions["callbacks of call-log (impure) functions may return different values on each call and take time, but do not touch library memory or panic"] = true
	} else {
		res = ex.applyFunc(fv.T, sig, ats)
		ex.vc.assumptions["callbacks are pure, deterministic, terminating and do not touch library memory"] = true
	}
	if sig.Results().Len() == 0 {
		return Val{}
	}
	if sig.Results().Len() == 1 {
		n := ex.vc.define(ex.pfx+"cb", ex.vc.sortOf(sig.Results().At(0).Type()), res[0])
		ex.vc.assume(sImp(ex.curReach, ex.typeInv(n, sig.Results().At(0).Type(), ex.curState)))
		return Val{T: n}
	}
	var tup []Val
	for k, r := range res {
		n := ex.vc.define(ex.pfx+"cb", ex.vc.sortOf(sig.Results().At(k).Type()), r)
		tup = append(tup, Val{T: n})
	}
	return Val{Tup: tup}
}

// applyFunc returns the terms call_sig_k(f, args) for each result k.
func (ex *Exec) applyFunc(f string, sig *types.Signature, args []string) []string {
	return ex.vc.applyFunc(f, sig, args)
}

func (vc *VC) sigIdent(sig *types.Signature) (string, []string, []string) {
	var ps, rs []string
	id := "call"
	for i := 0; i < sig.Params().Len(); i++ {
		s := vc.sortOf(sig.Params().At(i).Type())
		ps = append(ps, s)
		id += "_" + sortIdent(s)
	}
	id += "_to"
	for i := 0; i < sig.Results().Len(); i++ {
		s := vc.sortOf(sig.Results().At(i).Type())
		rs = append(rs, s)
		id += "_" + sortIdent(s)
	}
	return id, ps, rs
}

func (vc *VC) applyFunc(f string, sig *types.Signature, args []string) []string {
	id, ps, rs := vc.sigIdent(sig)
	var out []string
	for k, r := range rs {
		fn := fmt.Sprintf("%s_%d", id, k)
		vc.declareOnce("fn:"+fn, fmt.Sprintf("(declare-fun %s (Int %s) %s)", fn, strings.Join(ps, " "), r))
		out = append(out, sApp(fn, append([]string{f}, args...)...))
	}
	return out
}

// logCall appends (f, first-arg) to the ghost call log when the function is in calllog mode.
func (ex *Exec) logCall(f string, sig *types.Signature, args []string) {
	top := ex
	for top.parent != nil {
		top = top.parent
	}
	if top.vc.spec == nil || !top.vc.spec.CallLog {
		return
	}
	st := ex.curState
	n := ex.get(st, "LOGN", "Int")
	// log of callee ids
	ex.set(st, "LOGF", "(Array Int Int)", sSto(ex.get(st, "LOGF", "(Array Int Int)"), n, f))
	for k, a := range args {
		srt := ex.vc.sortOf(sig.Params().At(k).Type())
		key := fmt.Sprintf("LOGA%d:%s", k, sortIdent(srt))
		as := "(Array Int " + srt + ")"
		ex.set(st, key, as, sSto(ex.get(st, key, as), n, a))
	}
	ex.set(st, "LOGN", "Int", "(+ "+n+" 1)")
}

func (ex *Exec) builtinCall(v *ssa.Call, c *ssa.CallCommon, b *ssa.Builtin, pos token.Pos) Val {
	args := ex.args(c)
	switch b.Name() {
	case "len":
		ln := ex.lenOf(args[0].T, c.Args[0].Type(), ex.curState)
		if _, isMap := ex.typ(c.Args[0].Type()).Underlying().(*types.Map); isMap {
			ex.vc.assume(sImp(ex.curReach, "(and (<= 0 "+ln+") (<= "+ln+" 72057594037927936))"))
		}
		return Val{T: ln}
	case "cap":
		return Val{T: "(scap " + args[0].T + ")"}
	case "append":
		return ex.doAppend(v, c, args, pos)
	case "copy":
		return ex.doCopy(c, args, pos)
	case "delete":
		mt := ex.typ(c.Args[0].Type()).Underlying().(*types.Map)
		ex.mapDelete(mt, args[0].T, args[1].T)
		return Val{}
	case "min", "max":
		op := "<="
		if b.Name() == "max" {
			op = ">="
		}
		t := args[0].T
		for _, a := range args[1:] {
			t = sIte("("+op+" "+t+" "+a.T+")", t, a.T)
		}
		return Val{T: t}
	case "close":
		ex.chanClose(args[0].T, pos)
		return Val{}
	case "print", "println":
		return Val{}
	case "ssa:wrapnilchk":
		ex.nilCheck(args[0], pos)
		return args[0]
	}
	ex.vc.errorf("unsupported builtin %s", b.Name())
	return Val{T: "0"}
}

func (ex *Exec) lenOf(x string, t types.Type, st *State) string {
	t = ex.typ(t)
	switch u := t.Underlying().(type) {
	case *types.Slice:
		return "(slen_ " + x + ")"
	case *types.Map:
		mk := ex.mapComps(u)
		ex.permCheckMap(mk, x, false)
		return sSel(ex.get(st, mk.card, "(Array Int Int)"), x)
	case *types.Array:
		return fmt.Sprint(u.Len())
	case *types.Pointer:
		if at, ok := u.Elem().Underlying().(*types.Array); ok {
			return fmt.Sprint(at.Len())
		}
	case *types.Chan:
		return "0"
	}
	if ex.isStringy(t) {
		return "(slen " + x + ")"
	}
	ex.vc.errorf("len of %s", t)
	return "0"
}

// doAppend models append exactly: in place when capacity suffices (visible through every alias of the
// backing array), otherwise a fresh backing array. In the growing case the fresh array is modelled as a copy
// of the whole old backing array at the same offset; the contents of the new spare capacity are therefore
// unspecified rather than zero (nothing in the module reads spare capacity of a grown array).
func (ex *Exec) doAppend(v *ssa.Call, c *ssa.CallCommon, args []Val, pos token.Pos) Val {
	s, t := args[0].T, args[1].T
	st := ex.curState
	sl, ok := ex.typ(c.Args[0].Type()).Underlying().(*types.Slice)
	if !ok {
		ex.vc.errorf("append on non-slice")
		return Val{T: s}
	}
	et := sl.Elem()
	k, srt := ex.elemKey(et)
	as := "(Array Int (Array Int " + srt + "))"
	E := ex.get(st, k, as)
	var tl string
	tget := func(i string) string {
		if ex.isStringy(c.Args[1].Type()) {
			return "(select (sbytes " + t + ") " + i + ")"
		}
		return "(select (select " + E + " (sarr " + t + ")) (ix (soff " + t + ") " + i + "))"
	}
	if ex.isStringy(c.Args[1].Type()) { // append([]byte, string...)
		tl = "(slen " + t + ")"
	} else {
		tl = "(slen_ " + t + ")"
	}
	static := staticLen(c.Args[1])
	if static >= 0 {
		tl = fmt.Sprint(static)
	}
	newLen := ex.vc.define(ex.pfx+"applen", "Int", "(+ (slen_ "+s+") "+tl+")")
	fits := ex.vc.define(ex.pfx+"appfits", "Bool", "(<= "+newLen+" (scap "+s+"))")
	al := ex.allocComp(st)
	r := ex.vc.fresh(ex.pfx+"apparr", "Int")
	ex.vc.assume(sAnd("(not (= "+r+" 0))", "(not (isSub "+r+"))", sNot(sSel(al, r))))
	ex.set(st, "alloc", "(Array Int Bool)", sIte(fits, al, sSto(al, r, "true")))
	newCap := ex.vc.fresh(ex.pfx+"appcap", "Int")
	ex.vc.assume(sAnd("(>= "+newCap+" "+newLen+")", "(<= (+ (soff "+s+") "+newCap+") 72057594037927936)"))
	res := ex.vc.define(ex.pfx+"app", sliceSort, sIte(fits,
		"(mk_slice (sarr "+s+") (soff "+s+") "+newLen+" (scap "+s+"))",
		"(mk_slice "+r+" (soff "+s+") "+newLen+" "+newCap+")"))
	oldArr := sSel(E, "(sarr "+s+")")
	var A string
	if static >= 0 && static <= 4 {
		A = oldArr
		for j := 0; j < static; j++ {
			A = sSto(A, fmt.Sprintf("(ix (soff %s) (+ (slen_ %s) %d))", s, s, j), tget(fmt.Sprint(j)))
		}
		A = ex.vc.define(ex.pfx+"appdata", "(Array Int "+srt+")", A)
	} else {
		A = ex.vc.fresh(ex.pfx+"appdata", "(Array Int "+srt+")")
		lo := "(+ (soff " + s + ") (slen_ " + s + "))"
		ex.vc.assume(sImp(ex.curReach, fmt.Sprintf("(forall ((aj Int)) (! (= (select %s aj) (ite (and (<= %s aj) (< aj (+ (soff %s) %s))) %s (select %s aj))) :pattern ((select %s aj))))",
			A, lo, s, newLen, tget("(- aj "+lo+")"), oldArr, A)))
	}
	ex.permCheckElem(k, "(sarr "+res+")", true)
	ex.set(st, k, as, sSto(E, "(sarr "+res+")", A))
	return Val{T: res}
}

// staticLen: length of a varargs slice built by the compiler (slice of `new [N]T (varargs)`), or -1.
func staticLen(v ssa.Value) int {
	sl, ok := v.(*ssa.Slice)
	if !ok || sl.Low != nil || sl.High != nil {
		return -1
	}
	al, ok := sl.X.(*ssa.Alloc)
	if !ok {
		return -1
	}
	if at, ok := al.Type().Underlying().(*types.Pointer).Elem().Underlying().(*types.Array); ok {
		return int(at.Len())
	}
	return -1
}

func (ex *Exec) doCopy(c *ssa.CallCommon, args []Val, pos token.Pos) Val {
	d, s := args[0].T, args[1].T
	st := ex.curState
	sl := ex.typ(c.Args[0].Type()).Underlying().(*types.Slice)
	k, srt := ex.elemKey(sl.Elem())
	as := "(Array Int (Array Int " + srt + "))"
	E := ex.get(st, k, as)
	var sl2, sget string
	if ex.isStringy(c.Args[1].Type()) {
		sl2 = "(slen " + s + ")"
		sget = "(select (sbytes " + s + ") %s)"
	} else {
		sl2 = "(slen_ " + s + ")"
		sget = "(select (select " + E + " (sarr " + s + ")) (ix (soff " + s + ") %s))"
	}
	n := ex.vc.define(ex.pfx+"copyn", "Int", sIte("(<= (slen_ "+d+") "+sl2+")", "(slen_ "+d+")", sl2))
	A := ex.vc.fresh(ex.pfx+"copydata", "(Array Int "+srt+")")
	oldArr := sSel(E, "(sarr "+d+")")
	ex.vc.assume(sImp(ex.curReach, fmt.Sprintf("(forall ((ci Int)) (! (= (select %s ci) (ite (and (<= (soff %s) ci) (< ci (+ (soff %s) %s))) %s (select %s ci))) :pattern ((select %s ci))))",
		A, d, d, n, fmt.Sprintf(sget, "(- ci (soff "+d+"))"), oldArr, A)))
	ex.permCheckElem(k, "(sarr "+d+")", true)
	ex.set(st, k, as, sSto(E, "(sarr "+d+")", A))
	return Val{T: n}
}

// staticCall: contract (modular) > inline > native extern > unknown.
func (ex *Exec) staticCall(v *ssa.Call, c *ssa.CallCommon, callee *ssa.Function, clo *ssa.MakeClosure, pos token.Pos) Val {
	origin := callee
	if callee.Origin() != nil {
		origin = callee.Origin()
	}
	key := funcKey(origin)
	// type substitution: origin's type params -> (caller-substituted) type args
	ts := TSubst{}
	if tps := origin.TypeParams(); tps != nil && len(callee.TypeArgs()) == tps.Len() {
		for i := 0; i < tps.Len(); i++ {
			ts[tps.At(i)] = ex.typ(callee.TypeArgs()[i])
		}
	} else if origin.Parent() != nil {
		// closures share the enclosing function's type parameters and substitution
		for k, t := range ex.ts {
			ts[k] = t
		}
	}
	args := ex.args(c)
	if r, ok := ex.nativeCall(key, origin, c, args, pos); ok {
		return r
	}
	spec := ex.vc.w.Contracts.Funcs[key]
	isSelf := origin == ex.topFn()
	if spec != nil && (!spec.Inline || isSelf) {
		return ex.contractCall(key, spec, origin, ts, c, args, pos, clo)
	}
	// inline: module functions without loops (or closures), bounded depth
	if origin.Blocks != nil && ex.depth < 6 && (isModuleFunc(origin) || origin.Parent() != nil) && !ex.onStack(origin) {
		if len(findLoops(origin)) == 0 || (spec != nil && spec.Inline) {
			return ex.inlineCall(key, origin, ts, clo, args, pos)
		}
	}
	ex.vc.errorf("call to %s at %s: no contract, not inlinable — result and reachable state are unconstrained", key, ex.vc.w.pos(pos))
	return ex.havocResult(callee.Signature)
}

func (ex *Exec) topFn() *ssa.Function {
	t := ex
	for t.parent != nil {
		t = t.parent
	}
	return t.fn
}

func (ex *Exec) onStack(f *ssa.Function) bool {
	for e := ex; e != nil; e = e.parent {
		if e.fn == f {
			return true
		}
	}
	return false
}

func isModuleFunc(f *ssa.Function) bool {
	if f.Pkg != nil {
		return strings.HasPrefix(f.Pkg.Pkg.Path(), modulePath)
	}
	if f.Parent() != nil {
		return isModuleFunc(f.Parent())
	}
	return false
}

func (ex *Exec) havocResult(sig *types.Signature) Val {
	rs := sig.Results()
	if rs.Len() == 0 {
		return Val{}
	}
	if rs.Len() == 1 {
		return Val{T: ex.vc.fresh(ex.pfx+"hv", ex.sortOfT(rs.At(0).Type()))}
	}
	var tup []Val
	for i := 0; i < rs.Len(); i++ {
		tup = append(tup, Val{T: ex.vc.fresh(ex.pfx+"hv", ex.sortOfT(rs.At(i).Type()))})
	}
	return Val{Tup: tup}
}

func (ex *Exec) inlineCall(key string, callee *ssa.Function, ts TSubst, clo *ssa.MakeClosure, args []Val, pos token.Pos) Val {
	ex.vc.inlined[key] = true
	sub := ex.vc.newExec(callee, ts, ex)
	for i, p := range callee.Params {
		if i < len(args) {
			sub.vals[p] = args[i]
		}
	}
	if clo != nil {
		for i, fv := range callee.FreeVars {
			sub.vals[fv] = ex.val(clo.Bindings[i])
		}
	}
	sub.panicsWhen = ex.panicsWhen
	sub.run(ex.curReach, ex.curState)
	// merge returns
	if len(sub.rets) == 0 {
		ex.curReach = "false"
		return ex.havocResult(callee.Signature)
	}
	var edges []edge
	tmpOut := map[*ssa.BasicBlock]*State{}
	_ = tmpOut
	// build merged state
	st := newState()
	if len(sub.rets) == 1 {
		st = sub.rets[0].st
	} else {
		keys := map[string]bool{}
		for _, r := range sub.rets {
			for k := range r.st.m {
				keys[k] = true
			}
		}
		var ks []string
		for k := range keys {
			ks = append(ks, k)
		}
		sort.Strings(ks)
		for _, k := range ks {
			srt := ex.vc.compSort[k]
			term := ex.get(sub.rets[len(sub.rets)-1].st, k, srt)
			for i := len(sub.rets) - 2; i >= 0; i-- {
				term = sIte(sub.rets[i].reach, ex.get(sub.rets[i].st, k, srt), term)
			}
			st.m[k] = ex.vc.define("ij_"+k, srt, term)
		}
		var olds []*State
		var conds []string
		for _, r := range sub.rets {
			olds = append(olds, r.st.old)
			conds = append(conds, r.reach)
		}
		st.old = ex.mergeOlds(olds, conds)
	}
	_ = edges
	var rs []string
	for _, r := range sub.rets {
		rs = append(rs, r.reach)
	}
	ex.curState = st
	ex.curReach = ex.vc.define(ex.pfx+"after_"+sanitize(callee.Name()), "Bool", sOr(rs...))
	nres := callee.Signature.Results().Len()
	if nres == 0 {
		return Val{}
	}
	mergeK := func(k int) Val {
		// location-valued or closure-valued results are passed through only for single returns
		if len(sub.rets) == 1 {
			return sub.rets[0].vals[k]
		}
		term := sub.rets[len(sub.rets)-1].vals[k].T
		for i := len(sub.rets) - 2; i >= 0; i-- {
			term = sIte(sub.rets[i].reach, sub.rets[i].vals[k].T, term)
		}
		return Val{T: ex.vc.define(ex.pfx+"ret_"+sanitize(callee.Name()), ex.vc.sortOf(ts.apply(callee.Signature.Results().At(k).Type())), term)}
	}
	if nres == 1 {
		return mergeK(0)
	}
	var tup []Val
	for k := 0; k < nres; k++ {
		tup = append(tup, mergeK(k))
	}
	return Val{Tup: tup}
}

// contractCall: assert requires, havoc modifies, assume ensures.
func (ex *Exec) contractCall(key string, spec *FuncSpec, callee *ssa.Function, ts TSubst, c *ssa.CallCommon, args []Val, pos token.Pos, clo *ssa.MakeClosure) Val {
	ex.vc.usedSpecs[key] = true
	if spec.Extern || spec.Trusted {
		ex.vc.externs[key] = true
	}
	ex.callOrd[callee.Name()]++
	ord := ex.callOrd[callee.Name()]
	if o, ok := ex.callOrdOf[c]; ok {
		ord = o
	}
	pre := ex.curState
	ev := ex.newEval(pre, pre)
	ev.ts = ts
	ev.fn = callee
	ev.pkg = pkgOf(callee)
	for i, p := range callee.Params {
		if i < len(args) {
			ev.vars[p.Name()] = TV{T: args[i].T, Ty: goVT(ts.apply(p.Type())), Loc: args[i].Loc}
		}
	}
	// captured variables of a closure under contract: their values at the call (read from the shared cells)
	if clo != nil {
		for i, fv := range callee.FreeVars {
			if i >= len(clo.Bindings) {
				break
			}
			b := ex.val(clo.Bindings[i])
			if b.Loc != nil {
				ev.vars[fv.Name()] = TV{T: ex.loadLocNoPerm(pre, b.Loc), Ty: goVT(b.Loc.Ty)}
				continue
			}
			if pt, ok := ts.apply(fv.Type()).Underlying().(*types.Pointer); ok && b.T != "" {
				if isAggregate(pt.Elem()) {
					ev.vars[fv.Name()] = TV{T: b.T, Ty: goVT(pt.Elem()), Addr: true}
				} else {
					ev.vars[fv.Name()] = TV{T: ex.loadAt(pre, b.T, pt.Elem()), Ty: goVT(pt.Elem())}
				}
			}
		}
	}
	// ghost arguments
	bindGhostArgs := func() {
		if len(spec.GhostParam) == 0 {
			return
		}
		var hint *CallHint
		if top := ex.vc.spec; top != nil {
			for _, h := range top.Calls {
				if h.Callee == callee.Name() && (h.Ordinal == 0 || h.Ordinal == ord) {
					hint = h
				}
			}
		}
		// ghost arguments are written in terms of the function under verification (its locals, ghost state and
		// ghost parameters), also when the call sits in code inlined into it
		cev := ex.topExec().evalHere()
		cev.st = ex.curState
		for _, gp := range spec.GhostParam {
			vt := ev.resolveType(gp.Type)
			if hint != nil && hint.Ghost[gp.Name] != nil {
				tv := cev.eval(hint.Ghost[gp.Name])
				ev.vars[gp.Name] = TV{T: tv.T, Ty: vt}
			} else {
				ex.vc.errorf("call to %s#%d needs ghost argument %s (add a 'call %s#%d ghost %s = …' hint)", callee.Name(), ord, gp.Name, callee.Name(), ord, gp.Name)
				ev.vars[gp.Name] = TV{T: ex.vc.fresh("gh", ex.vc.vtSort(vt)), Ty: vt}
			}
		}
	}
	bindGhostArgs()
	ex.concCallEnter(spec, ev, pos)
	if ex.vc.conc && len(spec.Lock) > 0 {
		// a locking callee acquires the mutex first: the ghost views the caller passes are the ones chosen at
		// that acquisition (the caller's own ghost parameters were re-chosen there)
		bindGhostArgs()
	}
	// axioms about the uninterpreted functions the callee's contract mentions
	for _, ax := range ex.vc.w.Contracts.axiomsFor(spec) {
		seen := false
		for _, n := range ex.vc.axiomsUsed {
			if n == ax.Name {
				seen = true
			}
		}
		if !seen {
			ex.vc.axiomsUsed = append(ex.vc.axiomsUsed, ax.Name)
			ex.vc.assume(ev.evalBool(ax.Body))
		}
	}
	// requires
	for k, r := range spec.Requires {
		if modeSkip(r, ex.vc.conc) {
			continue
		}
		t := ev.evalBool(r.Expr)
		ex.vc.oblige(fmt.Sprintf("call.%s.requires[%d]", callee.Name(), k+1)+ordSuffix(ord), "", pos, ex.curReach, t, "precondition of "+key+": "+r.Text)
	}
	// findings carve-out of the callee: the caller must stay outside, otherwise it inherits the finding
	for _, f := range spec.Findings {
		t := ev.evalBool(f.Expr)
		ex.vc.oblige(fmt.Sprintf("call.%s.finding.%s", callee.Name(), f.Label)+ordSuffix(ord), "", pos, ex.curReach, sNot(t), "call stays outside known finding "+f.Label+" of "+key)
		ex.vc.assume(sImp(ex.curReach, sNot(t)))
	}
	// documented panic of the callee
	for _, pw := range spec.PanicsWhen {
		t := ev.evalBool(pw.Expr)
		ex.nopanic("call."+callee.Name()+".nopanic"+ordSuffix(ord), pos, sNot(t), "callee "+key+" panics when "+pw.Text)
	}
	// lock protocol of the callee
	ex.lockCallProtocol(spec, ev, pos, callee.Name())
	ex.concCalleeFootprint(spec, callee, ev, pos)
	// havoc modifies
	post := pre.clone()
	ex.curState = post
	if spec.CallLog {
		// register the log components the callee's postcondition mentions, so that they are havocked below
		saved := ex.vc.scratch
		ex.vc.scratch = true
		tev := ex.newEval(post, pre)
		tev.ts, tev.fn, tev.pkg = ts, callee, ev.pkg
		for k, v := range ev.vars {
			tev.vars[k] = v
		}
		nerr := len(ex.vc.errs)
		for _, e := range spec.Ensures {
			tev.evalBool(e.Expr)
		}
		ex.vc.errs = ex.vc.errs[:nerr]
		ex.vc.scratch = saved
	}
	ex.havocModifies(spec, ev, pre, post, callee, ts)
	// results
	var res Val
	rs := callee.Signature.Results()
	pev := ex.newEval(post, pre)
	pev.ts = ts
	pev.fn = callee
	pev.pkg = ev.pkg
	for k, v := range ev.vars {
		pev.vars[k] = v
	}
	var tup []Val
	for i := 0; i < rs.Len(); i++ {
		rt := ts.apply(rs.At(i).Type())
		n := ex.vc.fresh(ex.pfx+"r_"+sanitize(callee.Name()), ex.vc.sortOf(rt))
		tup = append(tup, Val{T: n})
		ex.vc.assume(sImp(ex.curReach, ex.typeInv(n, rt, post)))
		nm := rs.At(i).Name()
		tv := TV{T: n, Ty: goVT(rt)}
		if nm != "" && nm != "_" {
			pev.vars[nm] = tv
		}
		pev.vars[fmt.Sprintf("result%d", i)] = tv
		if i == 0 {
			pev.vars["result"] = tv
		}
	}
	if rs.Len() == 1 {
		res = tup[0]
	} else if rs.Len() > 1 {
		res = Val{Tup: tup}
	}
	// ghost variables of the callee: their final values are existentially chosen witnesses. A ghost variable of
	// the caller with the same name receives the callee's value (ghost result passing by name).
	for _, g := range spec.Ghosts {
		vt := pev.resolveType(g.Type)
		n := ex.vc.fresh(ex.pfx+"g_"+sanitize(callee.Name())+"_"+g.Name, ex.vc.vtSort(vt))
		pev.vars[g.Name] = TV{T: n, Ty: vt}
		if outs := spec.Opts["ghost-out"]; outs != "" && !strings.Contains(" "+strings.ReplaceAll(outs, ",", " ")+" ", " "+g.Name+" ") {
			continue // the callee names its ghost results explicitly: its other ghost variables are internal
		}
		if cg, ok := ex.vc.ghostSort[g.Name]; ok && ex.vc.vtSort(cg) == ex.vc.vtSort(vt) {
			ex.set(post, "G:"+g.Name, ex.vc.vtSort(cg), n)
		}
	}
	for _, e := range spec.Ensures {
		if modeSkip(e, ex.vc.conc) || (ex.vc.conc && spec.Opts["multi-section"] != "" && (e.Tag == "" || e.Tag == "seq")) {
			continue
		}
		t := pev.evalBool(e.Expr)
		ex.vc.assume(sImp(ex.curReach, t))
	}
	ex.concCallLeave(spec)
	return res
}

func ordSuffix(ord int) string {
	if ord <= 1 {
		return ""
	}
	return fmt.Sprintf("#%d", ord)
}

func pkgOf(f *ssa.Function) *types.Package {
	for f != nil {
		if f.Pkg != nil {
			return f.Pkg.Pkg
		}
		if f.Origin() != nil && f.Origin() != f {
			f = f.Origin()
			continue
		}
		f = f.Parent()
	}
	return nil
}

// havocModifies: every component named in the callee's modifies clauses gets a fresh value at the named
// locations; "alloc" only grows.
func (ex *Exec) havocModifies(spec *FuncSpec, ev *Eval, pre, post *State, callee *ssa.Function, ts TSubst) {
	if spec.Pure {
		return
	}
	allocHavoc := false
	var havocked [][3]string
	for _, m := range spec.Modifies {
		for _, loc := range splitTop(m.Text, ',') {
			if loc == "nothing" || loc == "" {
				continue
			}
			if loc == "alloc" {
				allocHavoc = true
				continue
			}
			targets := ev.modTargets(loc)
			for _, tg := range targets {
				cur := ex.get(post, tg.key, tg.sort)
				fresh := ex.vc.fresh("hv_"+tg.key, tg.sort)
				havocked = append(havocked, [3]string{tg.key, tg.sort, fresh})
				if tg.all {
					ex.set(post, tg.key, tg.sort, fresh)
				} else {
					// only the named index changes
					ex.set(post, tg.key, tg.sort, sSto(cur, tg.idx, sSel(fresh, tg.idx)))
				}
			}
		}
	}
	// a callee in call-log mode extends the ghost call log
	if spec.CallLog {
		for _, key := range sortedKeys(ex.vc.compKeys()) {
			if strings.HasPrefix(key, "LOG") {
				srt := ex.vc.compSort[key]
				ex.set(post, key, srt, ex.vc.fresh("hv_"+key, srt))
			}
		}
		ex.set(post, "LOGN", "Int", ex.vc.fresh("hv_LOGN", "Int"))
		ex.set(post, "LOGF", "(Array Int Int)", ex.vc.fresh("hv_LOGF", "(Array Int Int)"))
	}
	// the ghost clock may advance during any call
	if _, used := ex.vc.compSort["CLK"]; used || mentions(spec.specText(), "now") {
		clk := ex.get(pre, "CLK", "Int")
		nclk := ex.vc.fresh("clk_after_"+sanitize(callee.Name()), "Int")
		ex.vc.assume("(>= " + nclk + " " + clk + ")")
		ex.set(post, "CLK", "Int", nclk)
	}
	// ghost registries the callee's contract speaks about (timers, goroutine / singleflight counters) may change
	text := spec.specText()
	for _, g := range []struct {
		words []string
		comps [][2]string
	}{
		{[]string{"timercount", "timerdue", "timerfn", "timeron"}, [][2]string{{"TMRDUE", "(Array Int Int)"}, {"TMRFN", "(Array Int Int)"}, {"TMRON", "(Array Int Bool)"}, {"TMRN", "Int"}}},
		{[]string{"gocount"}, [][2]string{{"GOCNT", "Int"}}},
		{[]string{"docount", "dokey", "doran"}, [][2]string{{"DOCNT", "Int"}, {"DOKEY", strSort}, {"DORAN", "Bool"}}},
	} {
		hit := false
		for _, w := range g.words {
			if mentions(text, w) {
				hit = true
			}
		}
		if hit {
			for _, c := range g.comps {
				if c[1] == strSort {
					ex.vc.needStr()
				}
				ex.set(post, c[0], c[1], ex.vc.fresh("hv_"+c[0], c[1]))
			}
		}
	}
	// allocation may always grow in a callee (fresh results)
	_ = allocHavoc
	al := ex.allocComp(pre)
	nal := ex.vc.fresh("alloc_after_"+sanitize(callee.Name()), "(Array Int Bool)")
	ex.vc.assume(fmt.Sprintf("(forall ((r Int)) (! (=> (select %s r) (select %s r)) :pattern ((select %s r))))", al, nal, nal))
	ex.vc.assume(sNot(sSel(nal, "0")))
	ex.set(post, "alloc", "(Array Int Bool)", nal)
	for _, h := range havocked {
		if f := memInv(h[0], h[1], h[2], nal); f != "" {
			ex.vc.assume(f)
		}
	}
}

// ---------------------------------------------------------------- closures

// closureAxiom: for a closure whose body is a single block of pure instructions, assert
// forall args. call_sig(id, args) = body  (evaluated in the state at creation; captured cells are read there).
func (ex *Exec) closureAxiom(mc *ssa.MakeClosure, id string) {
	fn := mc.Fn.(*ssa.Function)
	sig := fn.Signature
	if sig.Results().Len() != 1 {
		return
	}
	var bound []string
	var argNames []string
	for i, p := range fn.Params {
		n := fmt.Sprintf("cp%d", i)
		bound = append(bound, fmt.Sprintf("(%s %s)", n, ex.sortOfT(p.Type())))
		argNames = append(argNames, n)
	}
	ret, ok := ex.closureBody(mc, ex.curState, argNames)
	if !ok {
		return
	}
	app := ex.applyFunc(id, ex.typ(sig).(*types.Signature), argNames)[0]
	if len(bound) == 0 {
		ex.vc.assume(sEq(app, ret))
		return
	}
	ex.vc.assume(fmt.Sprintf("(forall (%s) (! (= %s %s) :pattern (%s)))", strings.Join(bound, " "), app, ret, app))
}

// closureBody: the value a single-block pure closure returns for the given argument terms, with every memory
// read done in state st. Index expressions are read without bounds obligations (the caller states the range).
func (ex *Exec) closureBody(mc *ssa.MakeClosure, st *State, argTerms []string) (string, bool) {
	fn := mc.Fn.(*ssa.Function)
	if len(fn.Blocks) != 1 || fn.Signature.Results().Len() != 1 {
		return "", false
	}
	env := map[ssa.Value]string{}
	envLoc := map[ssa.Value]*Loc{}
	for i, p := range fn.Params {
		if i < len(argTerms) {
			env[p] = argTerms[i]
		}
	}
	for i, fv := range fn.FreeVars {
		b := ex.val(mc.Bindings[i])
		env[fv] = b.T
		if b.Loc != nil {
			envLoc[fv] = b.Loc
		}
	}
	get := func(v ssa.Value) (string, bool) {
		if t, ok := env[v]; ok && t != "" {
			return t, true
		}
		if c, ok := v.(*ssa.Const); ok {
			return ex.constVal(c).T, true
		}
		return "", false
	}
	ret := ""
	for _, ins := range fn.Blocks[0].Instrs {
		switch i := ins.(type) {
		case *ssa.DebugRef:
		case *ssa.IndexAddr:
			x, ok1 := get(i.X)
			idx, ok2 := get(i.Index)
			sl, isSl := ex.typ(i.X.Type()).Underlying().(*types.Slice)
			if !ok1 || !ok2 || !isSl || isStructType(sl.Elem()) {
				return "", false
			}
			k, srt := ex.elemKey(sl.Elem())
			envLoc[i] = &Loc{Kind: LElem, Base: "(sarr " + x + ")", Idx: "(ix (soff " + x + ") " + idx + ")", Key: k, Sort: srt, Ty: sl.Elem()}
			env[i] = ""
		case *ssa.UnOp:
			switch i.Op {
			case token.MUL:
				if l := envLoc[i.X]; l != nil {
					env[i] = ex.loadLocNoPerm(st, l)
					continue
				}
				x, ok := get(i.X)
				if !ok {
					return "", false
				}
				pt := ex.typ(i.X.Type()).Underlying().(*types.Pointer).Elem()
				if isAggregate(pt) {
					return "", false
				}
				env[i] = ex.loadAt(st, x, pt)
			case token.NOT:
				x, ok := get(i.X)
				if !ok {
					return "", false
				}
				env[i] = sNot(x)
			case token.SUB:
				x, ok := get(i.X)
				if !ok {
					return "", false
				}
				env[i] = "(- " + x + ")"
			default:
				return "", false
			}
		case *ssa.BinOp:
			x, ok1 := get(i.X)
			y, ok2 := get(i.Y)
			if !ok1 || !ok2 || ex.isStringy(i.X.Type()) {
				return "", false
			}
			op := map[token.Token]string{token.ADD: "+", token.SUB: "-", token.MUL: "*", token.EQL: "=", token.LSS: "<", token.LEQ: "<=", token.GTR: ">", token.GEQ: ">="}[i.Op]
			if i.Op == token.NEQ {
				env[i] = sNot(sEq(x, y))
			} else if op != "" {
				env[i] = "(" + op + " " + x + " " + y + ")"
			} else {
				return "", false
			}
		case *ssa.Return:
			r, ok := get(i.Results[0])
			if !ok {
				return "", false
			}
			ret = r
		default:
			return "", false
		}
	}
	return ret, ret != ""
}

// afterCallGhost applies the `ghost-at callee#k:` updates of the function under verification right after the
// k-th call (source order) of that callee. $ret / $ret0.. denote the value(s) the call returned.
func (ex *Exec) afterCallGhost(v *ssa.Call, c *ssa.CallCommon) {
	if ex.parent != nil || ex.vc.spec == nil || len(ex.vc.spec.AtCall) == 0 || ex.vc.scratch {
		return
	}
	name := calleeName(c)
	ord := ex.callOrdOf[c]
	for _, a := range ex.vc.spec.AtCall {
		if a.Callee != name || a.Ordinal != ord {
			continue
		}
		idx := len(ex.curBlock.Instrs)
		for i, ins := range ex.curBlock.Instrs {
			if ins == ssa.Instruction(v) {
				idx = i + 1
			}
		}
		extra := map[string]TV{}
		r := ex.vals[v]
		rt := ex.typ(v.Type())
		if tup, ok := rt.(*types.Tuple); ok {
			for k := 0; k < tup.Len() && k < len(r.Tup); k++ {
				extra[fmt.Sprintf("$ret%d", k)] = TV{T: r.Tup[k].T, Ty: goVT(tup.At(k).Type())}
			}
		} else if r.T != "" {
			extra["$ret"] = TV{T: r.T, Ty: goVT(rt)}
		}
		if a.Clause.Kind == "assume-at" {
			// a declared restriction of the verified domain: paths on which the condition fails after this call are
			// NOT verified (reported as an assumption; something else must stand in for them)
			e, err := parseExpr(a.Clause.Text)
			if err != nil {
				ex.vc.errorf("%s: %v", a.Clause.Src, err)
				continue
			}
			ev := ex.newEval(ex.curState, ex.entry)
			ex.bindParams(ev)
			ev.point = &progPoint{block: ex.curBlock, idx: idx}
			for k, x := range extra {
				ev.vars[k] = x
			}
			ex.vc.assume(sImp(ex.curReach, ev.evalBool(e)))
			ex.vc.assumptions[fmt.Sprintf("%s: paths with !(%s) after the call of %s#%d are NOT verified deductively (assumed away)", ex.vc.key, strings.TrimSpace(a.Clause.Text), a.Callee, a.Ordinal)] = true
			continue
		}
		ex.applyGhostUpdateX(a.Clause, ex.curState, &progPoint{block: ex.curBlock, idx: idx}, ex.curReach, extra)
	}
}

package main

import (
	"fmt"
	"go/constant"
	"go/types"
	"path/filepath"
	"strings"

	"golang.org/x/tools/go/ssa"
)

// ---------------------------------------------------------------- value types of contract expressions

type VT struct {
	Kind string // "go" | "set" | "map" | "bag" | "seq"
	Go   types.Type
	Args []VT
}

func goVT(t types.Type) VT { return VT{Kind: "go", Go: t} }

var vtInt = goVT(types.Typ[types.Int])
var vtBool = goVT(types.Typ[types.Bool])

func (v VT) String() string {
	if v.Kind == "go" {
		if v.Go == nil {
			return "?"
		}
		return v.Go.String()
	}
	var as []string
	for _, a := range v.Args {
		as = append(as, a.String())
	}
	return v.Kind + "[" + strings.Join(as, ",") + "]"
}

func (vc *VC) vtSort(v VT) string {
	switch v.Kind {
	case "go":
		if v.Go == nil {
			return "Int"
		}
		return vc.sortOf(v.Go)
	case "set":
		return "(Array " + vc.vtSort(v.Args[0]) + " Bool)"
	case "bag":
		return "(Array " + vc.vtSort(v.Args[0]) + " Int)"
	case "seq":
		return "(Array Int " + vc.vtSort(v.Args[0]) + ")"
	case "map":
		return "(Array " + vc.vtSort(v.Args[0]) + " " + vc.vtSort(v.Args[1]) + ")"
	}
	return "Int"
}

// TV: typed term. Addr means T is a reference to a value of type Ty (an lvalue of aggregate type).
type TV struct {
	T    string
	Ty   VT
	Addr bool
	Loc  *Loc
	Zero bool // the polymorphic literal `zero`
	Nil  bool
}

type progPoint struct {
	block *ssa.BasicBlock
	idx   int // instructions [0,idx) of block have executed
}

type Eval struct {
	ex      *Exec
	st      *State
	old     *State
	params  map[string]TV // function parameters (entry values); shadowed by like-named locals at loop cuts
	vars    map[string]TV
	ts      TSubst
	fn      *ssa.Function
	pkg     *types.Package
	point   *progPoint
	depth   int
	inOld   bool
	loopOld *State            // state at entry of the loop whose invariant is being evaluated (lold)
	overlay map[ssa.Value]Val // loop-cut overlay to install while this evaluator runs
	exitCtx bool              // evaluating ensures / exit-ghost: a parameter name means its entry value
	gfAbs   map[string]Expr   // refinement check: ghost fields read through these abstraction expressions (over `self`)
}

func (ex *Exec) newEval(st, old *State) *Eval {
	if st != nil && st.old != nil && old == ex.topExec().entry {
		old = st.old // concurrent mode: old() is the state at the last acquisition on the paths leading to st
	}
	return &Eval{ex: ex, st: st, old: old, vars: map[string]TV{}, params: map[string]TV{}, ts: ex.ts, fn: ex.fn, pkg: pkgOf(ex.fn)}
}

// evalHere: evaluator for the current program point of this activation (caller-side expressions).
func (ex *Exec) evalHere() *Eval {
	ev := ex.newEval(ex.curState, ex.entry)
	ex.bindParams(ev)
	ev.point = &progPoint{block: ex.curBlock, idx: ex.curIdx}
	return ev
}

func (ex *Exec) bindParams(ev *Eval) {
	for _, p := range ex.fn.Params {
		v := ex.vals[p]
		ev.params[p.Name()] = TV{T: v.T, Ty: goVT(ex.typ(p.Type())), Loc: v.Loc}
	}
	for k, v := range ex.ghostArgs {
		ev.vars[k] = v
	}
}

func (ev *Eval) errorf(format string, a ...any) {
	ev.ex.vc.errorf("contract: "+format, a...)
}

func (ev *Eval) vc() *VC { return ev.ex.vc }

func (ev *Eval) state() *State {
	if ev.inOld {
		return ev.old
	}
	return ev.st
}

func (ev *Eval) evalBool(e Expr) string {
	if ev.overlay != nil {
		saved := ev.ex.loopPhiOverlay
		ev.ex.loopPhiOverlay = ev.overlay
		defer func() { ev.ex.loopPhiOverlay = saved }()
	}
	tv := ev.eval(e)
	return tv.T
}

// instNamed instantiates a generic named type with the like-named (else positional) type parameters in scope.
func (ev *Eval) instNamed(n *types.Named) types.Type {
	if n.TypeParams() == nil || n.TypeParams().Len() == 0 {
		return n
	}
	var targs []types.Type
	for i := 0; i < n.TypeParams().Len(); i++ {
		want := n.TypeParams().At(i).Obj().Name()
		var got types.Type
		for f := ev.fn; f != nil && got == nil; f = f.Parent() {
			if tps := f.TypeParams(); tps != nil {
				for j := 0; j < tps.Len(); j++ {
					if tps.At(j).Obj().Name() == want {
						got = ev.ts.apply(tps.At(j))
					}
				}
			}
		}
		if got == nil && ev.fn != nil {
			if tps := ev.fn.TypeParams(); tps != nil && i < tps.Len() {
				got = ev.ts.apply(tps.At(i))
			}
		}
		if got == nil {
			got = n.TypeParams().At(i)
		}
		targs = append(targs, got)
	}
	if inst, err := types.Instantiate(nil, n, targs, false); err == nil {
		return inst
	}
	return n
}

func (ev *Eval) resolveType(te TypeExpr) VT {
	switch te.Kind {
	case "set", "bag", "seq":
		return VT{Kind: te.Kind, Args: []VT{ev.resolveType(te.Args[0])}}
	case "map":
		return VT{Kind: "map", Args: []VT{ev.resolveType(te.Args[0]), ev.resolveType(te.Args[1])}}
	case "ptr":
		a := ev.resolveType(te.Args[0])
		if a.Kind == "go" && a.Go != nil {
			return goVT(types.NewPointer(a.Go))
		}
		return goVT(types.Typ[types.UnsafePointer])
	case "slice":
		a := ev.resolveType(te.Args[0])
		return goVT(types.NewSlice(a.Go))
	}
	if strings.HasPrefix(te.Name, "typeof(") && strings.HasSuffix(te.Name, ")") {
		if v, ok := ev.vars[te.Name[7:len(te.Name)-1]]; ok {
			return v.Ty
		}
		if ev.fn != nil {
			for _, p := range ev.fn.Params {
				if p.Name() == te.Name[7:len(te.Name)-1] {
					return goVT(ev.ts.apply(p.Type()))
				}
			}
		}
		ev.errorf("typeof: unknown name in %s", te.Name)
		return vtInt
	}
	switch te.Name {
	case "int":
		return vtInt
	case "bool":
		return vtBool
	case "ref":
		return goVT(types.Typ[types.UnsafePointer])
	case "string":
		return goVT(types.Typ[types.String])
	case "byte":
		return goVT(types.Typ[types.Uint8])
	case "int64":
		return goVT(types.Typ[types.Int64])
	}
	// type parameter of the function in scope
	if ev.fn != nil {
		f := ev.fn
		for f != nil {
			if tps := f.TypeParams(); tps != nil {
				for i := 0; i < tps.Len(); i++ {
					if tps.At(i).Obj().Name() == te.Name {
						return goVT(ev.ts.apply(tps.At(i)))
					}
				}
			}
			f = f.Parent()
		}
	}
	// named type in the package (qualified pkg.Name allowed)
	name := te.Name
	pkg := ev.pkg
	if k := strings.Index(name, "."); k >= 0 {
		pn := name[:k]
		name = name[k+1:]
		if pkg != nil {
			for _, imp := range pkg.Imports() {
				if imp.Name() == pn {
					pkg = imp
				}
			}
		}
	}
	if pkg != nil {
		if obj := pkg.Scope().Lookup(name); obj != nil {
			if tn, ok := obj.(*types.TypeName); ok {
				t := tn.Type()
				if n, ok := t.(*types.Named); ok && n.TypeParams() != nil && n.TypeParams().Len() > 0 {
					// instantiate with the function's like-named type parameters
					var targs []types.Type
					for i := 0; i < n.TypeParams().Len(); i++ {
						want := n.TypeParams().At(i).Obj().Name()
						var got types.Type
						for f := ev.fn; f != nil && got == nil; f = f.Parent() {
							if tps := f.TypeParams(); tps != nil {
								for j := 0; j < tps.Len(); j++ {
									if tps.At(j).Obj().Name() == want {
										got = ev.ts.apply(tps.At(j))
									}
								}
							}
						}
						if got == nil && ev.fn != nil {
							if tps := ev.fn.TypeParams(); tps != nil && i < tps.Len() {
								got = ev.ts.apply(tps.At(i))
							}
						}
						if got == nil {
							got = n.TypeParams().At(i)
						}
						targs = append(targs, got)
					}
					if inst, err := types.Instantiate(nil, n, targs, false); err == nil {
						return goVT(inst)
					}
				}
				return goVT(t)
			}
		}
	}
	ev.errorf("unknown type %q", te.Name)
	return vtInt
}

// ---------------------------------------------------------------- evaluation

func (ev *Eval) eval(e Expr) TV {
	switch e := e.(type) {
	case EInt:
		return TV{T: e.Val, Ty: vtInt}
	case EStr:
		return TV{T: ev.vc().strLit(e.Val), Ty: goVT(types.Typ[types.String])}
	case EBool:
		if e.Val {
			return TV{T: "true", Ty: vtBool}
		}
		return TV{T: "false", Ty: vtBool}
	case ENil:
		return TV{T: "0", Ty: goVT(types.Typ[types.UntypedNil]), Nil: true}
	case EIdent:
		return ev.ident(e.Name)
	case EOld:
		sub := *ev
		sub.inOld = true
		return sub.eval(e.X)
	case EUn:
		x := ev.rval(ev.eval(e.X))
		if e.Op == "!" {
			return TV{T: sNot(x.T), Ty: vtBool}
		}
		return TV{T: "(- " + x.T + ")", Ty: x.Ty}
	case EAddr:
		x := ev.eval(e.X)
		if x.Addr {
			return TV{T: x.T, Ty: goVT(types.NewPointer(x.Ty.Go))}
		}
		if id, ok := e.X.(EIdent); ok && ev.point != nil {
			// &v for a Go local that lives in memory (its address is taken somewhere in the body)
			for _, b := range ev.ex.fn.Blocks {
				for _, ins := range b.Instrs {
					if al, ok := ins.(*ssa.Alloc); ok && al.Comment == id.Name && ev.ex.availableAt(al, ev.point) {
						if v := ev.ex.val(al); v.Loc == nil && v.T != "" {
							return TV{T: v.T, Ty: goVT(ev.ex.typ(al.Type()))}
						}
					}
				}
			}
		}
		ev.errorf("cannot take the address of this expression")
		return TV{T: "0", Ty: vtInt}
	case ECond:
		c := ev.eval(e.C)
		a, b := ev.rval(ev.eval(e.A)), ev.rval(ev.eval(e.B))
		a, b = ev.unifyZero(a, b)
		return TV{T: sIte(c.T, a.T, b.T), Ty: a.Ty}
	case ELambda:
		// array comprehension: a fresh constant with a defining axiom
		vt := ev.resolveType(e.Var.Type)
		sub := *ev
		sub.vars = map[string]TV{}
		for k, x := range ev.vars {
			sub.vars[k] = x
		}
		ev.vc().ctr++
		n := fmt.Sprintf("lam_%s_%d", sanitize(e.Var.Name), ev.vc().ctr)
		sub.vars[e.Var.Name] = TV{T: n, Ty: vt}
		body := sub.rval(sub.eval(e.Body))
		rt := VT{Kind: "map", Args: []VT{vt, body.Ty}}
		if vt.Kind == "go" && vt.Go != nil && ev.ex.sortOfT(vt.Go) == "Int" {
			rt = VT{Kind: "seq", Args: []VT{body.Ty}}
		}
		a := ev.vc().fresh("lambda", ev.vc().vtSort(rt))
		ev.vc().assume(fmt.Sprintf("(forall ((%s %s)) (! (= (select %s %s) %s) :pattern ((select %s %s))))", n, ev.vc().vtSort(vt), a, n, body.T, a, n))
		return TV{T: a, Ty: rt}
	case ELet:
		v := ev.rval(ev.eval(e.Val))
		sub := *ev
		sub.vars = map[string]TV{}
		for k, x := range ev.vars {
			sub.vars[k] = x
		}
		sub.vars[e.Name] = v
		return sub.eval(e.Body)
	case EBin:
		return ev.binop(e)
	case EQuant:
		return ev.quant(e)
	case EField:
		return ev.field(ev.eval(e.X), e.Name)
	case EIndex:
		return ev.index(ev.eval(e.X), ev.rval(ev.eval(e.I)))
	case ESlice:
		return ev.slice(e)
	case ECall:
		return ev.call(e)
	}
	ev.errorf("unsupported expression %T", e)
	return TV{T: "true", Ty: vtBool}
}

// rval turns an lvalue of aggregate type into the value stored there.
func (ev *Eval) rval(x TV) TV {
	if x.Addr {
		return TV{T: ev.ex.loadAt(ev.state(), x.T, x.Ty.Go), Ty: x.Ty}
	}
	return x
}

func (ev *Eval) unifyZero(a, b TV) (TV, TV) {
	if a.Zero && !b.Zero {
		a = TV{T: ev.zeroOfVT(b.Ty), Ty: b.Ty}
	}
	if b.Zero && !a.Zero {
		b = TV{T: ev.zeroOfVT(a.Ty), Ty: a.Ty}
	}
	if a.Nil && !b.Nil && b.Ty.Kind == "go" {
		if _, ok := b.Ty.Go.Underlying().(*types.Slice); ok {
			a = TV{T: "(mk_slice 0 0 0 0)", Ty: b.Ty}
		}
	}
	if b.Nil && !a.Nil && a.Ty.Kind == "go" {
		if _, ok := a.Ty.Go.Underlying().(*types.Slice); ok {
			b = TV{T: "(mk_slice 0 0 0 0)", Ty: a.Ty}
		}
	}
	return a, b
}

func (ev *Eval) zeroOfVT(v VT) string {
	switch v.Kind {
	case "go":
		return ev.vc().zeroOf(v.Go)
	case "set":
		return "((as const " + ev.vc().vtSort(v) + ") false)"
	case "bag":
		return "((as const " + ev.vc().vtSort(v) + ") 0)"
	}
	return "0"
}

func (ev *Eval) ident(name string) TV {
	if v, ok := ev.vars[name]; ok {
		return v
	}
	if v, ok := ev.params[name]; ok {
		// a parameter that the body reassigns: inside the body (loop cuts, ghost updates) the name means the
		// current value; in requires/ensures it means the entry value. param(x) always means the entry value.
		if ev.point != nil && !ev.exitCtx {
			if tv, ok := ev.ex.resolveLocal(name, ev.point, ev.st); ok {
				return tv
			}
		}
		return v
	}
	switch name {
	case "zero":
		return TV{Zero: true, T: "0", Ty: vtInt}
	case "now":
		return TV{T: ev.ex.get(ev.state(), "CLK", "Int"), Ty: vtInt}
	case "now0":
		// the ghost clock when the function was entered (in concurrent mode old(now) is the clock at the last acquisition)
		return TV{T: ev.ex.vc.comp("CLK", "Int"), Ty: vtInt}
	case "timercount":
		return TV{T: ev.ex.get(ev.state(), "TMRN", "Int"), Ty: vtInt}
	case "docount":
		return TV{T: ev.ex.get(ev.state(), "DOCNT", "Int"), Ty: vtInt}
	case "dokey":
		return TV{T: ev.ex.get(ev.state(), "DOKEY", strSort), Ty: goVT(types.Typ[types.String])}
	case "doran":
		return TV{T: ev.ex.get(ev.state(), "DORAN", "Bool"), Ty: vtBool}
	case "gocount":
		return TV{T: ev.ex.get(ev.state(), "GOCNT", "Int"), Ty: vtInt}
	case "logn":
		return TV{T: ev.ex.get(ev.state(), "LOGN", "Int"), Ty: vtInt}
	case "MaxInt":
		return TV{T: "9223372036854775807", Ty: vtInt}
	case "MinInt":
		return TV{T: "(- 9223372036854775808)", Ty: vtInt}
	}
	// ghost variable of the function
	if gt, ok := ev.vc().ghostSort[name]; ok {
		// like locals, ghost variables are not heap locations: old() does not rewind them
		return TV{T: ev.ex.get(ev.st, "G:"+name, ev.vc().vtSort(gt)), Ty: gt}
	}
	// Tmin/Tmax of numeric type parameter:  Tmin_T
	if strings.HasPrefix(name, "Tmin_") || strings.HasPrefix(name, "Tmax_") {
		for f := ev.fn; f != nil; f = f.Parent() {
			if tps := f.TypeParams(); tps != nil {
				for i := 0; i < tps.Len(); i++ {
					if tps.At(i).Obj().Name() == name[5:] {
						lo, hi := "", ""
						switch at := types.Unalias(ev.ts.apply(tps.At(i))).(type) {
						case *types.TypeParam:
							lo, hi = ev.vc().tpBounds(at)
						default:
							if b, ok := at.Underlying().(*types.Basic); ok {
								lo, hi = intRange(b)
							}
						}
						if lo == "" {
							ev.errorf("no integer bounds for %s", name)
							return TV{T: "0", Ty: vtInt}
						}
						if strings.HasPrefix(name, "Tmin_") {
							return TV{T: lo, Ty: vtInt}
						}
						return TV{T: hi, Ty: vtInt}
					}
				}
			}
		}
	}
	// Go local at the program point
	if ev.point != nil {
		if tv, ok := ev.ex.resolveLocal(name, ev.point, ev.st); ok {
			return tv
		}
	}
	// captured variable of a closure: the current content of the shared cell
	if ev.ex.parent == nil {
		for _, fv := range ev.ex.fn.FreeVars {
			if fv.Name() != name {
				continue
			}
			v, ok := ev.ex.vals[fv]
			if !ok {
				break
			}
			if pt, ok := ev.ex.typ(fv.Type()).Underlying().(*types.Pointer); ok {
				if isAggregate(pt.Elem()) {
					return TV{T: v.T, Ty: goVT(pt.Elem()), Addr: true}
				}
				return TV{T: ev.ex.loadAt(ev.state(), v.T, pt.Elem()), Ty: goVT(pt.Elem())}
			}
			return TV{T: v.T, Ty: goVT(ev.ex.typ(fv.Type()))}
		}
	}
	// package-level object
	if ev.pkg != nil {
		if obj := ev.pkg.Scope().Lookup(name); obj != nil {
			switch o := obj.(type) {
			case *types.Const:
				if o.Val().Kind() == constant.Int {
					return TV{T: smtIntLit(o.Val().ExactString()), Ty: goVT(o.Type())}
				}
			case *types.Var:
				// address of the global; its value is read from the cell
				for _, sp := range ev.vc().w.SPkgs {
					if sp != nil && sp.Pkg == ev.pkg {
						if g, ok := sp.Members[name].(*ssa.Global); ok {
							gv := ev.ex.val(g)
							return TV{T: ev.ex.loadAt(ev.state(), gv.T, o.Type()), Ty: goVT(o.Type())}
						}
					}
				}
			}
		}
	}
	ev.errorf("unknown identifier %q in %s", name, ev.ex.vc.key)
	return TV{T: "0", Ty: vtInt}
}

func isSliceVT(v VT) (*types.Slice, bool) {
	if v.Kind != "go" || v.Go == nil {
		return nil, false
	}
	s, ok := v.Go.Underlying().(*types.Slice)
	return s, ok
}

func isMapVT(v VT) (*types.Map, bool) {
	if v.Kind != "go" || v.Go == nil {
		return nil, false
	}
	s, ok := v.Go.Underlying().(*types.Map)
	return s, ok
}

func (ev *Eval) isNumVT(v VT) bool {
	return v.Kind == "go" && v.Go != nil && ev.ex.isNumeric(v.Go)
}

func (ev *Eval) binop(e EBin) TV {
	switch e.Op {
	case "&&":
		return TV{T: sAnd(ev.eval(e.X).T, ev.eval(e.Y).T), Ty: vtBool}
	case "||":
		return TV{T: sOr(ev.eval(e.X).T, ev.eval(e.Y).T), Ty: vtBool}
	case "==>":
		return TV{T: sImp(ev.eval(e.X).T, ev.eval(e.Y).T), Ty: vtBool}
	case "<==>":
		a, b := ev.eval(e.X).T, ev.eval(e.Y).T
		if strings.Contains(a, "(forall ") || strings.Contains(a, "(exists ") || strings.Contains(b, "(forall ") || strings.Contains(b, "(exists ") {
			// keep every quantifier at a definite polarity
			return TV{T: sAnd(sImp(a, b), sImp(b, a)), Ty: vtBool}
		}
		return TV{T: sEq(a, b), Ty: vtBool}
	case "in":
		x := ev.rval(ev.eval(e.X))
		y := ev.eval(e.Y)
		if mt, ok := isMapVT(y.Ty); ok {
			mk := ev.ex.mapComps(mt)
			return TV{T: sSel(sSel(ev.ex.get(ev.state(), mk.dom, mk.domS), y.T), x.T), Ty: vtBool}
		}
		if y.Ty.Kind == "set" {
			return TV{T: sSel(y.T, x.T), Ty: vtBool}
		}
		if y.Ty.Kind == "bag" {
			return TV{T: "(> " + sSel(y.T, x.T) + " 0)", Ty: vtBool}
		}
		ev.errorf("'in' needs a map or set on the right, got %s", y.Ty)
		return TV{T: "true", Ty: vtBool}
	}
	x, y := ev.rval(ev.eval(e.X)), ev.rval(ev.eval(e.Y))
	x, y = ev.unifyZero(x, y)
	switch e.Op {
	case "==":
		return TV{T: sEq(x.T, y.T), Ty: vtBool}
	case "!=":
		return TV{T: sNot(sEq(x.T, y.T)), Ty: vtBool}
	case "<", "<=", ">", ">=":
		if x.Ty.Kind == "go" && x.Ty.Go != nil && ev.ex.isStringy(x.Ty.Go) {
			return TV{T: ev.vc().strCmp(e.Op, x.T, y.T), Ty: vtBool}
		}
		return TV{T: "(" + e.Op + " " + x.T + " " + y.T + ")", Ty: vtBool}
	case "+":
		if x.Ty.Kind == "go" && x.Ty.Go != nil && ev.ex.isStringy(x.Ty.Go) {
			return TV{T: ev.vc().strConcat(x.T, y.T), Ty: x.Ty}
		}
		return TV{T: "(+ " + x.T + " " + y.T + ")", Ty: x.Ty}
	case "-":
		return TV{T: "(- " + x.T + " " + y.T + ")", Ty: x.Ty}
	case "*":
		return TV{T: "(* " + x.T + " " + y.T + ")", Ty: x.Ty}
	case "/":
		return TV{T: ev.vc().truncDiv(x.T, y.T), Ty: x.Ty}
	case "%":
		return TV{T: ev.vc().truncRem(x.T, y.T), Ty: x.Ty}
	}
	ev.errorf("unsupported operator %s", e.Op)
	return TV{T: "true", Ty: vtBool}
}

func (ev *Eval) quant(e EQuant) TV {
	sub := *ev
	sub.vars = map[string]TV{}
	for k, x := range ev.vars {
		sub.vars[k] = x
	}
	var bs []string
	for _, v := range e.Vars {
		vt := ev.resolveType(v.Type)
		ev.vc().ctr++
		n := fmt.Sprintf("q_%s_%d", sanitize(v.Name), ev.vc().ctr)
		bs = append(bs, "("+n+" "+ev.vc().vtSort(vt)+")")
		sub.vars[v.Name] = TV{T: n, Ty: vt}
	}
	body := sub.eval(e.Body).T
	// Re-index integer variables that address slice elements by absolute array position: a variable k used as
	// s[k] = E[arr][ix(off,k)] is replaced by a = off+k, so that the element term becomes E[arr][a] and the
	// quantifier can be triggered by any access to that array, however its index was computed. The re-indexed
	// formula is equivalent to the original; it is added as a second conjunct, marked with ixalt, which is kept
	// when the formula is used as a hypothesis and dropped when it is the goal.
	alt := ""
	if len(e.Pats) == 0 {
		abody := body
		abs := append([]string{}, bs...)
		var bnames []string
		for _, b := range bs {
			bnames = append(bnames, strings.Fields(strings.Trim(b, "()"))[0])
		}
		changed := false
		for i, b := range bs {
			f := strings.Fields(strings.Trim(b, "()"))
			if f[1] != "Int" {
				continue
			}
			if off, ok := findIxOffset(abody, f[0], bnames); ok {
				ev.vc().ctr++
				a := fmt.Sprintf("qa_%d", ev.vc().ctr)
				abody = strings.ReplaceAll(abody, "(ix "+off+" "+f[0]+")", a)
				abody = replaceToken(abody, f[0], "(- "+a+" "+off+")")
				abs[i] = "(" + a + " Int)"
				bnames[i] = a
				changed = true
			}
		}
		if changed {
			qq := "exists"
			if e.Forall {
				qq = "forall"
			}
			alt = "(" + qq + " (" + strings.Join(abs, " ") + ") " + abody + ")"
		}
	}
	q := "exists"
	if e.Forall {
		q = "forall"
	}
	if len(e.Pats) > 0 {
		var ps []string
		for _, p := range e.Pats {
			var ts []string
			for _, pe := range p {
				ts = append(ts, sub.rval(sub.eval(pe)).T)
			}
			ps = append(ps, ":pattern ("+strings.Join(ts, " ")+")")
		}
		return TV{T: "(" + q + " (" + strings.Join(bs, " ") + ") (! " + body + " " + strings.Join(ps, " ") + "))", Ty: vtBool}
	}
	main := "(" + q + " (" + strings.Join(bs, " ") + ") " + body + ")"
	if alt != "" {
		return TV{T: "(and " + main + " (ixalt " + alt + "))", Ty: vtBool}
	}
	return TV{T: main, Ty: vtBool}
}

func (ev *Eval) field(x TV, name string) TV {
	if x.Ty.Kind != "go" || x.Ty.Go == nil {
		ev.errorf("field %s of non-Go value %s", name, x.Ty)
		return TV{T: "0", Ty: vtInt}
	}
	t := x.Ty.Go
	// path through embedded fields
	obj, path, _ := types.LookupFieldOrMethod(t, true, ev.pkgForLookup(t), name)
	fv, ok := obj.(*types.Var)
	if !ok || !fv.IsField() {
		ev.errorf("no field %s in %s", name, t)
		return TV{T: "0", Ty: vtInt}
	}
	cur := x
	for _, fi := range path {
		cur = ev.fieldStep(cur, fi)
	}
	return cur
}

func (ev *Eval) pkgForLookup(t types.Type) *types.Package {
	if p, ok := t.Underlying().(*types.Pointer); ok {
		t = p.Elem()
	}
	if n, ok := types.Unalias(t).(*types.Named); ok && n.Obj().Pkg() != nil {
		return n.Obj().Pkg()
	}
	return ev.pkg
}

func (ev *Eval) fieldStep(x TV, fi int) TV {
	t := x.Ty.Go
	ref := ""
	if p, ok := t.Underlying().(*types.Pointer); ok && !x.Addr {
		ref = x.T
		t = p.Elem()
	} else if x.Addr {
		ref = x.T
	}
	n, st := structOf(t)
	if st == nil {
		ev.errorf("field access on non-struct %s", t)
		return TV{T: "0", Ty: vtInt}
	}
	ft := st.Field(fi).Type()
	if ref != "" {
		if isAggregate(ft) {
			return TV{T: fmt.Sprintf("(sub %s %d)", ref, fi), Ty: goVT(ft), Addr: true}
		}
		k, srt, _ := ev.ex.fieldKey(n, st, fi)
		return TV{T: sSel(ev.ex.get(ev.state(), k, "(Array Int "+srt+")"), ref), Ty: goVT(ft)}
	}
	srt := ev.vc().structSort(n, st)
	return TV{T: sApp(srt+"_"+sanitize(fieldName(st, fi)), x.T), Ty: goVT(ft)}
}

func (ev *Eval) index(x, i TV) TV {
	switch x.Ty.Kind {
	case "seq":
		return TV{T: sSel(x.T, i.T), Ty: x.Ty.Args[0]}
	case "map":
		return TV{T: sSel(x.T, i.T), Ty: x.Ty.Args[1]}
	case "set":
		return TV{T: sSel(x.T, i.T), Ty: vtBool}
	case "bag":
		return TV{T: sSel(x.T, i.T), Ty: vtInt}
	}
	if x.Ty.Go == nil {
		ev.errorf("index of untyped value")
		return TV{T: "0", Ty: vtInt}
	}
	switch u := x.Ty.Go.Underlying().(type) {
	case *types.Slice:
		x = ev.rval(x)
		at := "(ix (soff " + x.T + ") " + i.T + ")"
		if isStructType(u.Elem()) {
			return TV{T: "(sub (sarr " + x.T + ") " + at + ")", Ty: goVT(u.Elem()), Addr: true}
		}
		k, srt := ev.ex.elemKey(u.Elem())
		return TV{T: sSel(sSel(ev.ex.get(ev.state(), k, "(Array Int (Array Int "+srt+"))"), "(sarr "+x.T+")"), at), Ty: goVT(u.Elem())}
	case *types.Array:
		if x.Addr {
			if isStructType(u.Elem()) {
				return TV{T: "(sub " + x.T + " " + i.T + ")", Ty: goVT(u.Elem()), Addr: true}
			}
			k, srt := ev.ex.elemKey(u.Elem())
			return TV{T: sSel(sSel(ev.ex.get(ev.state(), k, "(Array Int (Array Int "+srt+"))"), x.T), i.T), Ty: goVT(u.Elem())}
		}
		return TV{T: sSel(x.T, i.T), Ty: goVT(u.Elem())}
	case *types.Map:
		mk := ev.ex.mapComps(u)
		return TV{T: sSel(sSel(ev.ex.get(ev.state(), mk.val, mk.valS), x.T), i.T), Ty: goVT(mk.vt)}
	}
	if ev.ex.isStringy(x.Ty.Go) {
		return TV{T: sSel("(sbytes "+x.T+")", i.T), Ty: goVT(types.Typ[types.Uint8])}
	}
	ev.errorf("cannot index %s", x.Ty)
	return TV{T: "0", Ty: vtInt}
}

func (ev *Eval) slice(e ESlice) TV {
	x := ev.rval(ev.eval(e.X))
	lo, hi := "0", ""
	if e.Lo != nil {
		lo = ev.eval(e.Lo).T
	}
	if e.Hi != nil {
		hi = ev.eval(e.Hi).T
	}
	if _, ok := isSliceVT(x.Ty); ok {
		if hi == "" {
			hi = "(slen_ " + x.T + ")"
		}
		return TV{T: fmt.Sprintf("(mk_slice (sarr %s) (+ (soff %s) %s) (- %s %s) (- (scap %s) %s))", x.T, x.T, lo, hi, lo, x.T, lo), Ty: x.Ty}
	}
	if x.Ty.Go != nil && ev.ex.isStringy(x.Ty.Go) {
		if hi == "" {
			hi = "(slen " + x.T + ")"
		}
		return TV{T: ev.vc().strSub(x.T, lo, hi), Ty: x.Ty}
	}
	ev.errorf("cannot slice %s", x.Ty)
	return x
}

func (ev *Eval) call(e ECall) TV {
	arg := func(i int) TV { return ev.rval(ev.eval(e.Args[i])) }
	alloc := func(st *State) string { return ev.ex.get(st, "alloc", "(Array Int Bool)") }
	switch e.Fn {
	case "len":
		x := arg(0)
		if x.Ty.Kind == "go" {
			return TV{T: ev.ex.lenOfNoPerm(x.T, x.Ty.Go, ev.state()), Ty: vtInt}
		}
		ev.errorf("len of %s", x.Ty)
	case "cap":
		return TV{T: "(scap " + arg(0).T + ")", Ty: vtInt}
	case "deref":
		x := arg(0)
		if x.Loc != nil {
			return TV{T: ev.ex.loadLocNoPerm(ev.state(), x.Loc), Ty: goVT(x.Loc.Ty)}
		}
		if p, ok := x.Ty.Go.Underlying().(*types.Pointer); ok {
			if isAggregate(p.Elem()) {
				return TV{T: x.T, Ty: goVT(p.Elem()), Addr: true}
			}
			return TV{T: ev.ex.loadAt(ev.state(), x.T, p.Elem()), Ty: goVT(p.Elem())}
		}
		ev.errorf("deref of non-pointer")
		return TV{T: "0", Ty: vtInt}
	case "lold":
		// value of an expression in the state at entry of the enclosing loop (invariants only)
		if ev.loopOld == nil {
			ev.errorf("lold() outside a loop invariant")
			return TV{T: "0", Ty: vtInt}
		}
		sub := *ev
		sub.st = ev.loopOld
		return sub.eval(e.Args[0])
	case "param":
		if id, ok := e.Args[0].(EIdent); ok {
			if v, ok := ev.params[id.Name]; ok {
				return v
			}
		}
		ev.errorf("param(): not a parameter")
		return TV{T: "0", Ty: vtInt}
	case "pre":
		// value of a loop-carried variable at the head of the iteration just executed (ghost updates only)
		if id, ok := e.Args[0].(EIdent); ok && ev.ex.ghostLoop != nil {
			for l := ev.ex.ghostLoop; l != nil; l = l.Parent {
				for _, ins := range l.Header.Instrs {
					if phi, ok := ins.(*ssa.Phi); ok && phi.Comment == id.Name {
						v := ev.ex.vals[phi]
						return TV{T: v.T, Ty: goVT(ev.ex.typ(phi.Type()))}
					}
				}
			}
		}
		ev.errorf("pre(): no loop-carried variable of that name")
		return TV{T: "0", Ty: vtInt}
	case "isEmptyString":
		// the value is of (dynamic) type string and is the empty string -- the value rejection rule of the cache
		x := arg(0)
		if x.Ty.Kind == "go" && x.Ty.Go != nil {
			if ev.ex.isStringy(x.Ty.Go) {
				return TV{T: "(= (slen " + x.T + ") 0)", Ty: vtBool}
			}
			if _, isTP := types.Unalias(x.Ty.Go).(*types.TypeParam); isTP {
				bf, _ := ev.ex.boxFn(x.Ty.Go)
				sf, stag := ev.ex.boxFn(types.Typ[types.String])
				b := sApp(bf, x.T)
				return TV{T: sAnd(sEq("(dyntag "+b+")", stag), "(= (slen (un"+sf+" "+b+")) 0)"), Ty: vtBool}
			}
		}
		return TV{T: "false", Ty: vtBool}
	case "cyc":
		// cyc(s, i): byte i of s repeated for ever (s[i mod len(s)]); same symbol as in the contract of strings.Repeat
		x, i := arg(0), arg(1)
		ev.vc().strPrelude()
		ev.vc().declareOnce("str:cyc", `(declare-fun str_cyc (Str Int) Int)
(assert (forall ((s Str) (i Int)) (! (=> (and (<= 0 i) (< i (slen s))) (= (str_cyc s i) (select (sbytes s) i))) :pattern ((str_cyc s i)))))`)
		return TV{T: "(str_cyc " + x.T + " " + i.T + ")", Ty: goVT(types.Typ[types.Uint8])}
	case "timerdue":
		return TV{T: sSel(ev.ex.get(ev.state(), "TMRDUE", "(Array Int Int)"), arg(0).T), Ty: vtInt}
	case "timerfn":
		return TV{T: sSel(ev.ex.get(ev.state(), "TMRFN", "(Array Int Int)"), arg(0).T), Ty: vtInt}
	case "timeron":
		return TV{T: sSel(ev.ex.get(ev.state(), "TMRON", "(Array Int Bool)"), arg(0).T), Ty: vtBool}
	case "timens":
		return TV{T: ev.ex.timeNanos(arg(0).T), Ty: vtInt}
	case "raw":
		// raw(s, e): the element s[e] addressed by plain arithmetic (off+e) instead of the ix symbol, so that a
		// quantifier triggered on s[k] does not re-trigger on the terms its own body creates (e.g. s[(k-1)/2])
		x, i := arg(0), arg(1)
		if sl, ok := isSliceVT(x.Ty); ok && !isStructType(sl.Elem()) {
			k, srt := ev.ex.elemKey(sl.Elem())
			return TV{T: sSel(sSel(ev.ex.get(ev.state(), k, "(Array Int (Array Int "+srt+"))"), "(sarr "+x.T+")"), "(+ (soff "+x.T+") "+i.T+")"), Ty: goVT(sl.Elem())}
		}
		ev.errorf("raw() needs a slice of scalars")
		return TV{T: "0", Ty: vtInt}
	case "sarr":
		return TV{T: "(sarr " + arg(0).T + ")", Ty: vtInt}
	case "soff":
		return TV{T: "(soff " + arg(0).T + ")", Ty: vtInt}
	case "fresh":
		x := arg(0)
		r := x.T
		if _, ok := isSliceVT(x.Ty); ok {
			r = "(sarr " + x.T + ")"
		}
		if ev.ex.vc.conc && ev.old != nil && ev.old.rebound {
			// concurrent mode re-binds old() at every acquisition; "fresh" keeps meaning: allocated during this call
			return TV{T: sNot(sSel("c0_alloc", "(rootOf "+r+")")), Ty: vtBool}
		}
		return TV{T: sNot(sSel(alloc(ev.old), "(rootOf "+r+")")), Ty: vtBool}
	case "allocated":
		x := arg(0)
		r := x.T
		if _, ok := isSliceVT(x.Ty); ok {
			r = "(sarr " + x.T + ")"
		}
		return TV{T: sSel(alloc(ev.state()), "(rootOf "+r+")"), Ty: vtBool}
	case "call":
		f := arg(0)
		sig, ok := f.Ty.Go.Underlying().(*types.Signature)
		if !ok {
			ev.errorf("call(): %s is not a func", f.Ty)
			return TV{T: "true", Ty: vtBool}
		}
		var as []string
		for i := 1; i < len(e.Args); i++ {
			as = append(as, arg(i).T)
		}
		res := ev.vc().applyFunc(f.T, sig, as)
		if len(res) == 0 {
			ev.errorf("call(): function has no result")
			return TV{T: "true", Ty: vtBool}
		}
		return TV{T: res[0], Ty: goVT(sig.Results().At(0).Type())}
	case "min", "max":
		a, b := arg(0), arg(1)
		op := "<="
		if e.Fn == "max" {
			op = ">="
		}
		return TV{T: sIte("("+op+" "+a.T+" "+b.T+")", a.T, b.T), Ty: a.Ty}
	case "abs":
		a := arg(0)
		return TV{T: sIte("(>= "+a.T+" 0)", a.T, "(- "+a.T+")"), Ty: a.Ty}
	case "dom":
		x := arg(0)
		if mt, ok := isMapVT(x.Ty); ok {
			mk := ev.ex.mapComps(mt)
			return TV{T: sSel(ev.ex.get(ev.state(), mk.dom, mk.domS), x.T), Ty: VT{Kind: "set", Args: []VT{goVT(mk.kt)}}}
		}
		ev.errorf("dom of %s", x.Ty)
	case "vals":
		x := arg(0)
		if mt, ok := isMapVT(x.Ty); ok {
			mk := ev.ex.mapComps(mt)
			return TV{T: sSel(ev.ex.get(ev.state(), mk.val, mk.valS), x.T), Ty: VT{Kind: "map", Args: []VT{goVT(mk.kt), goVT(mk.vt)}}}
		}
		ev.errorf("vals of %s", x.Ty)
	case "elems":
		// whole backing array of a slice as a seq indexed by absolute position
		x := arg(0)
		if sl, ok := isSliceVT(x.Ty); ok {
			k, srt := ev.ex.elemKey(sl.Elem())
			return TV{T: sSel(ev.ex.get(ev.state(), k, "(Array Int (Array Int "+srt+"))"), "(sarr "+x.T+")"), Ty: VT{Kind: "seq", Args: []VT{goVT(sl.Elem())}}}
		}
		ev.errorf("elems of %s", x.Ty)
	case "unchanged":
		x := arg(0)
		return TV{T: ev.unchanged(x), Ty: vtBool}
	case "store":
		a, i, v := arg(0), arg(1), arg(2)
		return TV{T: sSto(a.T, i.T, v.T), Ty: a.Ty}
	case "idmap":
		ev.vc().declareOnce("const:idmap", "(declare-const idmap_c (Array Int Int))\n(assert (forall ((k Int)) (! (= (select idmap_c k) k) :pattern ((select idmap_c k)))))")
		return TV{T: "idmap_c", Ty: VT{Kind: "map", Args: []VT{vtInt, vtInt}}}
	case "emptyset":
		ev.errorf("emptyset needs a type context; compare with forall instead")
	case "held":
		ev.ex.useHeld()
		x := ev.eval(e.Args[0])
		return TV{T: sSel(ev.ex.get(ev.state(), "HELD", "(Array Int Int)"), ev.mutexRef(x)), Ty: vtInt}
	case "ite":
		c, a, b := arg(0), arg(1), arg(2)
		a, b = ev.unifyZero(a, b)
		return TV{T: sIte(c.T, a.T, b.T), Ty: a.Ty}
	case "loga0", "loga1":
		// k-th logged argument at index i; element type given by the sort of a witness expression: loga0(i, witness)
		i := arg(0)
		w := arg(1)
		srt := ev.vc().vtSort(w.Ty)
		key := fmt.Sprintf("LOGA%s:%s", e.Fn[4:], sortIdent(srt))
		return TV{T: sSel(ev.ex.get(ev.state(), key, "(Array Int "+srt+")"), i.T), Ty: w.Ty}
	case "logf":
		return TV{T: sSel(ev.ex.get(ev.state(), "LOGF", "(Array Int Int)"), arg(0).T), Ty: vtInt}
	case "closed":
		// closed(ch): the channel has been closed
		return TV{T: sSel(ev.ex.get(ev.state(), chClosed, aIntBool), arg(0).T), Ty: vtBool}
	case "recvn":
		// recvn(ch): number of values received from ch so far
		return TV{T: sSel(ev.ex.get(ev.state(), chRecvN, aIntInt), arg(0).T), Ty: vtInt}
	case "streamn":
		// streamn(ch): number of values the registered producer of ch sends before closing it
		return TV{T: sSel(ev.ex.get(ev.state(), chSN, aIntInt), arg(0).T), Ty: vtInt}
	case "streamv":
		// streamv(ch, q, witness): q-th value of the registered producer of ch (element type from the witness)
		w := arg(2)
		k, srt := chSV(ev.vc().vtSort(w.Ty))
		return TV{T: sSel(sSel(ev.ex.get(ev.state(), k, srt), arg(0).T), arg(1).T), Ty: w.Ty}
	case "logr0", "logr1":
		// k-th result of the logged call at index i (impure call-log mode); type from a witness expression
		i := arg(0)
		w := arg(1)
		srt := ev.vc().vtSort(w.Ty)
		key := fmt.Sprintf("LOGR%s:%s", e.Fn[4:], sortIdent(srt))
		return TV{T: sSel(ev.ex.get(ev.state(), key, "(Array Int "+srt+")"), i.T), Ty: w.Ty}
	case "logt0", "logt1":
		// ghost clock when the logged call at index i started (logt0) / returned (logt1)
		return TV{T: sSel(ev.ex.get(ev.state(), "LOGT"+e.Fn[4:], "(Array Int Int)"), arg(0).T), Ty: vtInt}
	}
	if pd, ok := ev.vc().w.Contracts.Preds[e.Fn]; ok {
		return ev.applyPred(pd, e)
	}
	if tv, ok := ev.strBuiltin(e); ok {
		return tv
	}
	ev.errorf("unknown function %q", e.Fn)
	return TV{T: "true", Ty: vtBool}
}

func (ev *Eval) mutexRef(x TV) string {
	if x.Addr {
		return x.T
	}
	return x.T
}

func (ev *Eval) unchanged(x TV) string {
	if sl, ok := isSliceVT(x.Ty); ok {
		k, srt := ev.ex.elemKey(sl.Elem())
		as := "(Array Int (Array Int " + srt + "))"
		return sEq(sSel(ev.ex.get(ev.st, k, as), "(sarr "+x.T+")"), sSel(ev.ex.get(ev.old, k, as), "(sarr "+x.T+")"))
	}
	if mt, ok := isMapVT(x.Ty); ok {
		mk := ev.ex.mapComps(mt)
		return sAnd(
			sEq(sSel(ev.ex.get(ev.st, mk.dom, mk.domS), x.T), sSel(ev.ex.get(ev.old, mk.dom, mk.domS), x.T)),
			sEq(sSel(ev.ex.get(ev.st, mk.val, mk.valS), x.T), sSel(ev.ex.get(ev.old, mk.val, mk.valS), x.T)),
			sEq(sSel(ev.ex.get(ev.st, mk.card, "(Array Int Int)"), x.T), sSel(ev.ex.get(ev.old, mk.card, "(Array Int Int)"), x.T)))
	}
	if x.Ty.Kind == "go" && x.Ty.Go != nil {
		if p, ok := x.Ty.Go.Underlying().(*types.Pointer); ok {
			return sEq(ev.ex.loadAt(ev.st, x.T, p.Elem()), ev.ex.loadAt(ev.old, x.T, p.Elem()))
		}
	}
	ev.errorf("unchanged() of %s", x.Ty)
	return "true"
}

func (ev *Eval) applyPred(pd *PredDef, e ECall) TV {
	if len(e.Args) != len(pd.Params) {
		ev.errorf("%s expects %d arguments", pd.Name, len(pd.Params))
		return TV{T: "true", Ty: vtBool}
	}
	if ev.depth > 20 {
		ev.errorf("predicate expansion too deep (%s)", pd.Name)
		return TV{T: "true", Ty: vtBool}
	}
	if pd.GField {
		if abs, ok := ev.gfAbs[pd.Name]; ok {
			// refinement check: the ghost field is read through its abstraction function over the concrete state
			a := ev.rval(ev.eval(e.Args[0]))
			sub := *ev
			sub.vars = map[string]TV{}
			for k, v := range ev.vars {
				sub.vars[k] = v
			}
			sub.vars["self"] = a
			sub.depth = ev.depth + 1
			if ao, ok := ev.gfAbs["@old:"+pd.Name]; ok && ev.inOld {
				return sub.eval(ao)
			}
			return sub.eval(abs)
		}
		rt := vtInt
		if pd.Ret != nil {
			rt = ev.resolveType(*pd.Ret)
		}
		a := ev.rval(ev.eval(e.Args[0]))
		srt := "(Array Int " + ev.vc().vtSort(rt) + ")"
		return TV{T: sSel(ev.ex.get(ev.state(), "GF:"+pd.Name, srt), a.T), Ty: rt}
	}
	if pd.Uninterp {
		var as, ss []string
		for i, p := range pd.Params {
			a := ev.rval(ev.eval(e.Args[i]))
			as = append(as, a.T)
			pt := ev.resolveType(p.Type)
			if pt.Kind == "go" && pt.Go != nil {
				if _, isTP := pt.Go.(*types.TypeParam); isTP {
					pt = a.Ty
				}
			}
			ss = append(ss, ev.vc().vtSort(a.Ty))
		}
		rt := vtBool
		if pd.Ret != nil {
			rt = ev.resolveType(*pd.Ret)
		}
		name := "uf_" + sanitize(pd.Name)
		for _, s := range ss {
			name += "_" + sortIdent(s)
		}
		ev.vc().declareOnce("uf:"+name, fmt.Sprintf("(declare-fun %s (%s) %s)", name, strings.Join(ss, " "), ev.vc().vtSort(rt)))
		return TV{T: sApp(name, as...), Ty: rt}
	}
	sub := *ev
	sub.depth++
	sub.vars = map[string]TV{}
	// predicates are closed: only their parameters (plus ghost/global names) are visible
	for i, p := range pd.Params {
		a := ev.eval(e.Args[i])
		if !a.Addr {
			a = ev.rval(a)
		}
		sub.vars[p.Name] = a
	}
	sub.point = nil
	// type names in the body mean what they mean in the package whose contract file defines the predicate
	if k := strings.LastIndex(pd.Src, ":"); k > 0 {
		if tp := ev.vc().w.DirPkg[filepath.Dir(pd.Src[:k])]; tp != nil && tp != ev.pkg {
			sub.pkg = tp
		}
	}
	return sub.eval(pd.Body)
}

// ---------------------------------------------------------------- modifies targets

type modTarget struct {
	key, sort string
	idx       string
	all       bool
}

// modTargets translates one location of a modifies clause:
//
//	x.f            the field f of the object x points to
//	elems(s)       the backing array of slice s
//	*p             the cell p points to
//	map(m)         the contents of map m
//	all T.f        field f of every object of struct type T
//	ghost name     a ghost variable
func (ev *Eval) modTargets(loc string) []modTarget {
	loc = strings.TrimSpace(loc)
	ex := ev.ex
	if strings.HasPrefix(loc, "all ") {
		spec := strings.TrimSpace(loc[4:])
		k := strings.LastIndex(spec, ".")
		if k < 0 {
			ev.errorf("modifies all: need Type.field")
			return nil
		}
		vt := ev.resolveType(TypeExpr{Kind: "name", Name: spec[:k]})
		n, st := structOf(vt.Go)
		if st == nil {
			ev.errorf("modifies all: %s is not a struct", spec[:k])
			return nil
		}
		for i := 0; i < st.NumFields(); i++ {
			if fieldName(st, i) == spec[k+1:] {
				key, srt, _ := ex.fieldKey(n, st, i)
				return []modTarget{{key: key, sort: "(Array Int " + srt + ")", all: true}}
			}
		}
		ev.errorf("modifies all: no field %s", spec)
		return nil
	}
	if k := strings.Index(loc, "("); k > 0 && strings.HasSuffix(loc, ")") {
		if pd, ok := ex.vc.w.Contracts.Preds[strings.TrimSpace(loc[:k])]; ok && pd.GField {
			e, err := parseExpr(loc[k+1 : len(loc)-1])
			if err != nil {
				ev.errorf("modifies %s: %v", loc, err)
				return nil
			}
			rt := vtInt
			if pd.Ret != nil {
				rt = ev.resolveType(*pd.Ret)
			}
			a := ev.rval(ev.eval(e))
			return []modTarget{{key: "GF:" + pd.Name, sort: "(Array Int " + ev.vc().vtSort(rt) + ")", idx: a.T}}
		}
	}
	if strings.HasPrefix(loc, "closed(") && strings.HasSuffix(loc, ")") {
		e, err := parseExpr(loc[7 : len(loc)-1])
		if err != nil {
			ev.errorf("modifies %s: %v", loc, err)
			return nil
		}
		a := ev.rval(ev.eval(e))
		return []modTarget{{key: chClosed, sort: aIntBool, idx: a.T}}
	}
	if strings.HasPrefix(loc, "recvn(") && strings.HasSuffix(loc, ")") {
		e, err := parseExpr(loc[6 : len(loc)-1])
		if err != nil {
			ev.errorf("modifies %s: %v", loc, err)
			return nil
		}
		a := ev.rval(ev.eval(e))
		return []modTarget{{key: chRecvN, sort: aIntInt, idx: a.T}}
	}
	if strings.HasPrefix(loc, "ghost ") {
		name := strings.TrimSpace(loc[6:])
		if gt, ok := ev.vc().ghostSort[name]; ok {
			return []modTarget{{key: "G:" + name, sort: ev.vc().vtSort(gt), all: true}}
		}
		ev.errorf("modifies ghost: unknown %s", name)
		return nil
	}
	if loc == "log" {
		return nil
	}
	if strings.HasPrefix(loc, "*") {
		inner, err := parseExpr(loc[1:])
		if err == nil {
			x := ev.rval(ev.eval(inner))
			if x.Ty.Go != nil {
				if p, ok := x.Ty.Go.Underlying().(*types.Pointer); ok {
					if isAggregate(p.Elem()) {
						return ev.aggTargets(x.T, p.Elem())
					}
					k, srt := ex.cellKey(p.Elem())
					return []modTarget{{key: k, sort: "(Array Int " + srt + ")", idx: x.T}}
				}
			}
		}
		ev.errorf("modifies: unsupported location %q", loc)
		return nil
	}
	e, err := parseExpr(loc)
	if err != nil {
		ev.errorf("modifies: cannot parse %q: %v", loc, err)
		return nil
	}
	switch e := e.(type) {
	case ECall:
		switch e.Fn {
		case "elems":
			x := ev.rval(ev.eval(e.Args[0]))
			sl, ok := isSliceVT(x.Ty)
			if !ok {
				ev.errorf("modifies elems(): not a slice")
				return nil
			}
			k, srt := ex.elemKey(sl.Elem())
			return []modTarget{{key: k, sort: "(Array Int (Array Int " + srt + "))", idx: "(sarr " + x.T + ")"}}
		case "map":
			x := ev.rval(ev.eval(e.Args[0]))
			mt, ok := isMapVT(x.Ty)
			if !ok {
				ev.errorf("modifies map(): not a map")
				return nil
			}
			mk := ex.mapComps(mt)
			return []modTarget{{key: mk.dom, sort: mk.domS, idx: x.T}, {key: mk.val, sort: mk.valS, idx: x.T}, {key: mk.card, sort: "(Array Int Int)", idx: x.T}}
		}
	case EField:
		x := ev.eval(e.X)
		t := x.Ty.Go
		if t == nil {
			break
		}
		obj, path, _ := types.LookupFieldOrMethod(t, true, ev.pkgForLookup(t), e.Name)
		if fv, ok := obj.(*types.Var); ok && fv.IsField() {
			cur := x
			for _, fi := range path[:len(path)-1] {
				cur = ev.fieldStep(cur, fi)
			}
			ct := cur.Ty.Go
			ref := cur.T
			if p, ok := ct.Underlying().(*types.Pointer); ok && !cur.Addr {
				ct = p.Elem()
			}
			n, st := structOf(ct)
			if st != nil {
				fi := path[len(path)-1]
				if isAggregate(st.Field(fi).Type()) {
					return ev.aggTargets(fmt.Sprintf("(sub %s %d)", ref, fi), st.Field(fi).Type())
				}
				key, srt, _ := ex.fieldKey(n, st, fi)
				return []modTarget{{key: key, sort: "(Array Int " + srt + ")", idx: ref}}
			}
		}
	case EUn:
	}
	if strings.HasPrefix(loc, "*") {
		inner, err := parseExpr(loc[1:])
		if err == nil {
			x := ev.rval(ev.eval(inner))
			if p, ok := x.Ty.Go.Underlying().(*types.Pointer); ok {
				if isAggregate(p.Elem()) {
					return ev.aggTargets(x.T, p.Elem())
				}
				k, srt := ex.cellKey(p.Elem())
				return []modTarget{{key: k, sort: "(Array Int " + srt + ")", idx: x.T}}
			}
		}
	}
	ev.errorf("modifies: unsupported location %q", loc)
	return nil
}

func (ev *Eval) aggTargets(ref string, t types.Type) []modTarget {
	var out []modTarget
	n, st := structOf(t)
	if st == nil {
		return nil
	}
	for i := 0; i < st.NumFields(); i++ {
		ft := st.Field(i).Type()
		if isAggregate(ft) {
			out = append(out, ev.aggTargets(fmt.Sprintf("(sub %s %d)", ref, i), ft)...)
			continue
		}
		key, srt, _ := ev.ex.fieldKey(n, st, i)
		out = append(out, modTarget{key: key, sort: "(Array Int " + srt + ")", idx: ref})
	}
	return out
}

// lenOfNoPerm is lenOf without lock-permission obligations (contract expressions are ghost reads).
func (ex *Exec) lenOfNoPerm(x string, t types.Type, st *State) string {
	t = ex.typ(t)
	if u, ok := t.Underlying().(*types.Map); ok {
		mk := ex.mapComps(u)
		return sSel(ex.get(st, mk.card, "(Array Int Int)"), x)
	}
	return ex.lenOf(x, t, st)
}

// ---------------------------------------------------------------- resolving Go locals by name

// resolveLocal finds the value of the Go variable `name` at a program point.
func (ex *Exec) resolveLocal(name string, pt *progPoint, st *State) (TV, bool) {
	// candidates: DebugRef'd values, phis and allocs carrying the name
	type cand struct {
		v     ssa.Value
		block *ssa.BasicBlock
		idx   int
		alloc bool
	}
	var cands []cand
	for _, b := range ex.fn.Blocks {
		for i, ins := range b.Instrs {
			switch x := ins.(type) {
			case *ssa.DebugRef:
				if x.IsAddr {
					continue
				}
				if obj := x.Object(); obj != nil && obj.Name() == name {
					if _, isVar := obj.(*types.Var); isVar {
						cands = append(cands, cand{v: x.X, block: b, idx: i})
					}
				}
			case *ssa.Phi:
				if x.Comment == name {
					cands = append(cands, cand{v: x, block: b, idx: i})
				}
			case *ssa.Alloc:
				if x.Comment == name {
					cands = append(cands, cand{v: x, block: b, idx: i, alloc: true})
				}
			}
		}
	}
	if name == "$pos" {
		// byte position of the next rune of the string iteration of the enclosing loop
		for _, l := range ex.loops {
			if l.Header == pt.block || l.Blocks[pt.block] {
				for _, ins := range l.Header.Instrs {
					if nx, ok := ins.(*ssa.Next); ok {
						if rg, ok := nx.Iter.(*ssa.Range); ok {
							if it := ex.rangeIters[rg]; it != nil && it.isStr {
								return TV{T: ex.get(st, it.posKey, "Int"), Ty: vtInt}, true
							}
						}
					}
				}
			}
		}
	}
	if name == "$key" {
		// the key produced by the map iteration of the enclosing loop (for `for _, v := range m`)
		for _, l := range ex.loops {
			if l.Header == pt.block || l.Blocks[pt.block] {
				for _, ins := range l.Header.Instrs {
					if nx, ok := ins.(*ssa.Next); ok {
						if rg, ok := nx.Iter.(*ssa.Range); ok {
							if it := ex.rangeIters[rg]; it != nil {
								if v := ex.val(nx); len(v.Tup) == 3 {
									if it.isStr {
										return TV{T: v.Tup[1].T, Ty: vtInt}, true
									}
									mk := ex.mapComps(it.mt)
									return TV{T: v.Tup[1].T, Ty: goVT(mk.kt)}, true
								}
							}
						}
					}
				}
			}
		}
	}
	if name == "$n" {
		for _, l := range ex.loops {
			if l.Header == pt.block || l.Blocks[pt.block] {
				for _, ins := range l.Header.Instrs {
					if nx, ok := ins.(*ssa.Next); ok {
						if rg, ok := nx.Iter.(*ssa.Range); ok {
							if it := ex.rangeIters[rg]; it != nil && !it.isStr {
								return TV{T: ex.get(st, it.cntKey, "Int"), Ty: vtInt}, true
							}
						}
					}
				}
			}
		}
	}
	if name == "$visited" {
		// keys already produced by the map iteration of the enclosing loop
		for _, l := range ex.loops {
			if l.Header == pt.block || l.Blocks[pt.block] {
				for _, ins := range l.Header.Instrs {
					if nx, ok := ins.(*ssa.Next); ok {
						if rg, ok := nx.Iter.(*ssa.Range); ok {
							if it := ex.rangeIters[rg]; it != nil && !it.isStr {
								mk := ex.mapComps(it.mt)
								return TV{T: ex.get(st, it.visKey, it.visSort), Ty: VT{Kind: "set", Args: []VT{goVT(mk.kt)}}}, true
							}
						}
					}
				}
			}
		}
	}
	if name == "$i" || (strings.HasPrefix(name, "$i") && len(name) > 2) {
		// anonymous range index: the value rangeindex+1 computed in a loop header. $i = innermost enclosing
		// range loop, $i<N> = the range loop with ordinal N.
		want := 0
		if len(name) > 2 {
			fmt.Sscanf(name[2:], "%d", &want)
		}
		var bestL *Loop
		var bestV ssa.Value
		for _, l := range ex.loops {
			if want > 0 && l.Ordinal != want {
				continue
			}
			if l.Header == pt.block || l.Blocks[pt.block] {
				for _, ins := range l.Header.Instrs {
					if b, ok := ins.(*ssa.BinOp); ok {
						if p, ok := b.X.(*ssa.Phi); ok && p.Comment == "rangeindex" {
							if bestL == nil || len(l.Blocks) < len(bestL.Blocks) {
								bestL, bestV = l, b
							}
						}
					}
				}
			}
		}
		if bestL != nil {
			v := ex.val(bestV)
			return TV{T: v.T, Ty: vtInt}, true
		}
	}
	// A candidate binds the name at its own position (the DebugRef marking a definition, assignment or use; the
	// phi; the alloc). If that position has been executed when control is at pt, the binding counts from there.
	// A DebugRef that has not been executed yet (a later use of the variable) still identifies the variable's
	// value if that value is already computed and is not known under another variable's name (which would make
	// the DebugRef an assignment `x = y` that has not happened yet); it then counts from where the value was defined.
	defPos := func(c *cand) (*ssa.BasicBlock, int) {
		if ins, ok := c.v.(ssa.Instruction); ok && ins.Block() != nil {
			for i, x := range ins.Block().Instrs {
				if x == ins {
					return ins.Block(), i
				}
			}
		}
		return ex.fn.Blocks[0], -1
	}
	otherName := func(v ssa.Value) bool {
		switch x := v.(type) {
		case *ssa.Phi:
			if x.Comment != "" && x.Comment != name {
				return true
			}
		case *ssa.Alloc:
			if x.Comment != "" && x.Comment != name {
				return true
			}
		case *ssa.Parameter:
			if x.Name() != name {
				return true
			}
		case *ssa.Const:
			return true
		}
		for _, b := range ex.fn.Blocks {
			for _, ins := range b.Instrs {
				if d, ok := ins.(*ssa.DebugRef); ok && !d.IsAddr && d.X == v {
					if obj := d.Object(); obj != nil && obj.Name() != name {
						return true
					}
				}
			}
		}
		return false
	}
	type eff struct {
		b *ssa.BasicBlock
		i int
	}
	var best *cand
	var bestE eff
	// a variable that lives in memory (its address is taken): the content of its cell is its value, whatever
	// values were stored into it along the way
	memVar := false
	for i := range cands {
		c := &cands[i]
		if c.alloc && ex.availableAt(c.v, pt) && ((c.block == pt.block && c.idx < pt.idx) || (c.block != pt.block && c.block.Dominates(pt.block))) {
			memVar = true
		}
	}
	for i := range cands {
		c := &cands[i]
		if !ex.availableAt(c.v, pt) || (memVar && !c.alloc) {
			continue
		}
		executed := (c.block == pt.block && c.idx < pt.idx) || (c.block != pt.block && c.block.Dominates(pt.block))
		e := eff{c.block, c.idx}
		if !executed {
			if otherName(c.v) {
				continue
			}
			db, di := defPos(c)
			e = eff{db, di}
		}
		if best == nil {
			best, bestE = c, e
			continue
		}
		if bestE.b == e.b {
			if e.i > bestE.i {
				best, bestE = c, e
			}
		} else if bestE.b.Dominates(e.b) {
			best, bestE = c, e
		}
	}
	if best == nil {
		return TV{}, false
	}
	if best.alloc {
		al := best.v.(*ssa.Alloc)
		pt := ex.typ(al.Type()).(*types.Pointer).Elem()
		if l := ex.val(al).Loc; l != nil {
			return TV{T: ex.loadLocNoPerm(st, l), Ty: goVT(pt)}, true
		}
		ref := ex.val(al).T
		if isAggregate(pt) {
			return TV{T: ref, Ty: goVT(pt), Addr: true}, true
		}
		return TV{T: ex.loadAt(st, ref, pt), Ty: goVT(pt)}, true
	}
	v := ex.val(best.v)
	return TV{T: v.T, Ty: goVT(ex.typ(best.v.Type())), Loc: v.Loc}, true
}

// availableAt: is the SSA value computed (or overlaid) when execution is at pt?
func (ex *Exec) availableAt(v ssa.Value, pt *progPoint) bool {
	switch v.(type) {
	case *ssa.Parameter, *ssa.Const, *ssa.Global, *ssa.Function, *ssa.FreeVar:
		return true
	}
	if ex.loopPhiOverlay != nil {
		if _, ok := ex.loopPhiOverlay[v]; ok {
			return true
		}
	}
	ins, ok := v.(ssa.Instruction)
	if !ok {
		return true
	}
	b := ins.Block()
	if b == pt.block {
		for i, x := range b.Instrs {
			if x == ins {
				return i < pt.idx
			}
		}
		return false
	}
	_, have := ex.vals[v]
	return have && b.Dominates(pt.block)
}

// findIxOffset looks for an occurrence "(ix OFF v)" in term where OFF mentions none of the bound variables.
func findIxOffset(term, v string, bound []string) (string, bool) {
	for i := 0; ; {
		k := strings.Index(term[i:], "(ix ")
		if k < 0 {
			return "", false
		}
		k += i
		j := k + 4
		a1, n1 := sexprAt(term, j)
		if n1 > 0 && n1 < len(term) && term[n1] == ' ' {
			a2, n2 := sexprAt(term, n1+1)
			if n2 > 0 && a2 == v && n2 < len(term) && term[n2] == ')' {
				clean := true
				for _, b := range bound {
					if containsToken(a1, b) {
						clean = false
					}
				}
				if clean {
					return a1, true
				}
			}
		}
		i = k + 4
	}
}

// sexprAt returns the s-expression starting at position i and the index just after it.
func sexprAt(s string, i int) (string, int) {
	if i >= len(s) {
		return "", -1
	}
	if s[i] == '(' {
		depth := 0
		for j := i; j < len(s); j++ {
			if s[j] == '(' {
				depth++
			} else if s[j] == ')' {
				depth--
				if depth == 0 {
					return s[i : j+1], j + 1
				}
			}
		}
		return "", -1
	}
	j := i
	for j < len(s) && s[j] != ' ' && s[j] != ')' && s[j] != '(' {
		j++
	}
	return s[i:j], j
}

func isTokChar(c byte) bool {
	return !(c == ' ' || c == '(' || c == ')')
}

func containsToken(s, tok string) bool {
	for i := 0; ; {
		k := strings.Index(s[i:], tok)
		if k < 0 {
			return false
		}
		k += i
		if (k == 0 || !isTokChar(s[k-1])) && (k+len(tok) >= len(s) || !isTokChar(s[k+len(tok)])) {
			return true
		}
		i = k + len(tok)
	}
}

func replaceToken(s, tok, with string) string {
	var b strings.Builder
	for i := 0; i < len(s); {
		k := strings.Index(s[i:], tok)
		if k < 0 {
			b.WriteString(s[i:])
			break
		}
		k += i
		b.WriteString(s[i:k])
		if (k == 0 || !isTokChar(s[k-1])) && (k+len(tok) >= len(s) || !isTokChar(s[k+len(tok)])) {
			b.WriteString(with)
		} else {
			b.WriteString(tok)
		}
		i = k + len(tok)
	}
	return b.String()
}

package main

import (
	"fmt"
	"go/ast"
	"go/token"
	"strconv"
	"strings"
)

// ---------------------------------------------------------------- contract model

type Clause struct {
	Kind  string // requires ensures invariant modifies ...
	Tag   string // optional [C16] property override
	Text  string
	Expr  Expr   // parsed (for expression clauses)
	Src   string // file:line
	Label string // optional label "name:" prefix
}

type LoopSpec struct {
	Ordinal    int
	Lemmas     []*Clause // lemmas about the state at the cut, proved by induction under the invariants
	Invariants []*Clause
	Ghost      []*Clause // ghost updates at back-edge
	Decreases  *Clause
}

type GhostDecl struct {
	Name string
	Type TypeExpr
	Init Expr // optional initial value (function-level ghost variables)
}

type CallHint struct {
	Callee  string
	Ordinal int
	Ghost   map[string]Expr
}

type AtCall struct {
	Callee  string
	Ordinal int
	Clause  *Clause
}

type FuncSpec struct {
	Key        string
	Src        string
	Extern     bool // assumed contract (not verified): from /verif/extern or `trusted`
	Trusted    bool
	Properties []string
	Requires   []*Clause
	Ensures    []*Clause
	Modifies   []*Clause
	PanicsWhen []*Clause
	Ghosts     []GhostDecl
	GhostParam []GhostDecl
	Loops      map[int]*LoopSpec
	Arith      string // "", "checked", "ring"
	Inline     bool
	Pure       bool
	CallLog    bool
	Calls      []*CallHint
	Asserts    []*Clause // assert at exit (hints)
	Lock       []*Clause
	Findings   []*Clause // finding <ID> when <expr>
	Notes      []string
	Opts       map[string]string
	ExitGhost  []*Clause // ghost updates applied at each return
	AssumeBody []*Clause // body verified only under these conditions (the rest of the contract's domain is assumed)
	AtCall     []*AtCall // ghost updates applied right after the k-th call (source order) of a callee
	Lemmas     []*Clause // entry-state lemmas `forall v int, ... :: P`, proved by strong induction on the first variable
	Uses       []*Clause
	Refines    []string // refines <interface method key> with gf(self) := expr; ... (abstraction of ghost fields)
}

type PredDef struct {
	Text   string
	Name   string
	Params []GhostDecl
	Ret    *TypeExpr // nil => bool
	Body   Expr
	Src    string
	// uninterpreted function with axioms instead of macro
	Uninterp bool
	// ghost field: gfield name(x T) R -- a ghost component of the state, one R per object x (read as name(x),
	// rewound by old(), named in modifies clauses as name(x))
	GField bool
}

type AxiomDef struct {
	Text string
	Name string
	Body Expr
	Src  string
	// a lemma is an axiom that has a proof obligation (proved by induction hints) — for now
	// lemmas are proved as standalone goals.
	IsLemma bool
	Pkg     string
}

type GuardDecl struct {
	Mutex string   // (*Heap).mu
	Locs  []string // h.data ...
	Src   string
}

type ContractSet struct {
	Funcs  map[string]*FuncSpec
	Preds  map[string]*PredDef
	Axioms []*AxiomDef
	Guards []*GuardDecl
	LockInvs map[string]*Clause // type key (pkg.Type) -> invariant over `self`
	Order  []string
}

func newContractSet() *ContractSet {
	return &ContractSet{Funcs: map[string]*FuncSpec{}, Preds: map[string]*PredDef{}}
}

func (cs *ContractSet) parseGoFile(name string, f *ast.File, fset *token.FileSet) error {
	var sb strings.Builder
	type ln struct {
		text string
		line int
	}
	var lines []ln
	for _, cg := range f.Comments {
		for _, c := range cg.List {
			t := c.Text
			var body string
			if strings.HasPrefix(t, "//@") {
				body = strings.TrimPrefix(t, "//@")
			} else {
				continue
			}
			lines = append(lines, ln{body, fset.Position(c.Pos()).Line})
		}
	}
	_ = sb
	var texts []string
	var nums []int
	for _, l := range lines {
		texts = append(texts, l.text)
		nums = append(nums, l.line)
	}
	return cs.parseLines(name, texts, nums, false)
}

func (cs *ContractSet) parseText(name, text string, extern bool) error {
	var texts []string
	var nums []int
	for i, l := range strings.Split(text, "\n") {
		t := strings.TrimSpace(l)
		if strings.HasPrefix(t, "//@") {
			texts = append(texts, strings.TrimPrefix(t, "//@"))
			nums = append(nums, i+1)
		}
	}
	return cs.parseLines(name, texts, nums, extern)
}

var clauseKeywords = map[string]bool{
	"func": true, "loop": true, "property": true, "requires": true, "ensures": true,
	"modifies": true, "panics-when": true, "invariant": true, "ghost": true, "ghost-param": true,
	"decreases": true, "arith": true, "inline": true, "pure": true, "calllog": true, "call": true,
	"assert": true, "lock": true, "finding": true, "pred": true, "fun": true, "axiom": true,
	"lemma": true, "guards": true, "trusted": true, "note": true, "opt": true, "exit-ghost": true, "release-views": true, "assume-body": true,
	"use": true, "refines": true, "ufun": true, "gfield": true, "ghost-at": true, "assume-at": true, "lockinv": true,
}

func (cs *ContractSet) parseLines(file string, lines []string, nums []int, extern bool) error {
	// join continuation lines
	type item struct {
		kw, tag, rest string
		line          int
	}
	var items []item
	for i, raw := range lines {
		// strip trailing comment  " // ..."
		if j := strings.Index(raw, " // "); j >= 0 {
			raw = raw[:j]
		}
		t := strings.TrimSpace(raw)
		if t == "" {
			continue
		}
		// first token
		sp := strings.IndexAny(t, " \t")
		first := t
		rest := ""
		if sp >= 0 {
			first = t[:sp]
			rest = strings.TrimSpace(t[sp+1:])
		}
		tag := ""
		if k := strings.Index(first, "["); k > 0 && strings.HasSuffix(first, "]") {
			tag = first[k+1 : len(first)-1]
			first = first[:k]
		}
		if clauseKeywords[first] {
			items = append(items, item{first, tag, rest, nums[i]})
		} else {
			if len(items) == 0 {
				return fmt.Errorf("%s:%d: continuation line without clause", file, nums[i])
			}
			items[len(items)-1].rest += " " + t
		}
	}
	var cur *FuncSpec
	var curLoop *LoopSpec
	for _, it := range items {
		src := fmt.Sprintf("%s:%d", file, it.line)
		mk := func(parse bool) (*Clause, error) {
			c := &Clause{Kind: it.kw, Tag: it.tag, Text: it.rest, Src: src}
			if parse {
				e, err := parseExpr(it.rest)
				if err != nil {
					return nil, fmt.Errorf("%s: %v in %q", src, err, it.rest)
				}
				c.Expr = e
			}
			return c, nil
		}
		switch it.kw {
		case "func":
			key := strings.TrimSpace(it.rest)
			if _, dup := cs.Funcs[key]; dup {
				return fmt.Errorf("%s: duplicate contract for %s", src, key)
			}
			cur = &FuncSpec{Key: key, Src: src, Extern: extern, Loops: map[int]*LoopSpec{}, Opts: map[string]string{}}
			cs.Funcs[key] = cur
			cs.Order = append(cs.Order, key)
			curLoop = nil
			continue
		case "pred", "fun", "ufun", "gfield":
			pd, err := parsePredDef(it.rest, it.kw)
			if err != nil {
				return fmt.Errorf("%s: %v", src, err)
			}
			pd.Src = src
			pd.Text = it.rest
			if _, dup := cs.Preds[pd.Name]; dup {
				return fmt.Errorf("%s: duplicate pred %s", src, pd.Name)
			}
			cs.Preds[pd.Name] = pd
			continue
		case "lemma":
			if cur == nil {
				return fmt.Errorf("%s: lemma outside func block", src)
			}
			e, err := parseExpr(it.rest)
			if err != nil {
				return fmt.Errorf("%s: %v in %q", src, err, it.rest)
			}
			if curLoop != nil {
				curLoop.Lemmas = append(curLoop.Lemmas, &Clause{Kind: "lemma", Tag: it.tag, Text: it.rest, Expr: e, Src: src})
				continue
			}
			cur.Lemmas = append(cur.Lemmas, &Clause{Kind: "lemma", Tag: it.tag, Text: it.rest, Expr: e, Src: src})
			continue
		case "axiom":
			// axiom name: expr
			k := strings.Index(it.rest, ":")
			if k < 0 {
				return fmt.Errorf("%s: axiom needs 'name: expr'", src)
			}
			e, err := parseExpr(it.rest[k+1:])
			if err != nil {
				return fmt.Errorf("%s: %v", src, err)
			}
			cs.Axioms = append(cs.Axioms, &AxiomDef{Name: strings.TrimSpace(it.rest[:k]), Body: e, Src: src, IsLemma: it.kw == "lemma", Text: it.rest[k+1:]})
			continue
		case "lockinv":
			// lockinv heap.Heap : heapInv(self)
			k := strings.Index(it.rest, ":")
			if k < 0 {
				return fmt.Errorf("%s: lockinv needs 'pkg.Type : expr over self'", src)
			}
			e, err := parseExpr(it.rest[k+1:])
			if err != nil {
				return fmt.Errorf("%s: %v", src, err)
			}
			if cs.LockInvs == nil {
				cs.LockInvs = map[string]*Clause{}
			}
			cs.LockInvs[strings.TrimSpace(it.rest[:k])] = &Clause{Kind: "lockinv", Text: it.rest[k+1:], Expr: e, Src: src}
			continue
		case "guards":
			// guards (*Heap).mu : h.data, h.comp
			k := strings.Index(it.rest, ":")
			if k < 0 {
				return fmt.Errorf("%s: guards needs ':'", src)
			}
			g := &GuardDecl{Mutex: strings.TrimSpace(it.rest[:k]), Src: src}
			for _, l := range strings.Split(it.rest[k+1:], ",") {
				g.Locs = append(g.Locs, strings.TrimSpace(l))
			}
			cs.Guards = append(cs.Guards, g)
			continue
		}
		if cur == nil {
			return fmt.Errorf("%s: clause %q outside func block", src, it.kw)
		}
		switch it.kw {
		case "loop":
			n, err := strconv.Atoi(strings.TrimSpace(it.rest))
			if err != nil {
				return fmt.Errorf("%s: loop ordinal: %v", src, err)
			}
			curLoop = &LoopSpec{Ordinal: n}
			cur.Loops[n] = curLoop
		case "property":
			cur.Properties = append(cur.Properties, strings.Fields(it.rest)...)
		case "requires":
			c, err := mk(true)
			if err != nil {
				return err
			}
			cur.Requires = append(cur.Requires, c)
		case "ensures":
			c, err := mk(true)
			if err != nil {
				return err
			}
			cur.Ensures = append(cur.Ensures, c)
		case "assert":
			c, err := mk(true)
			if err != nil {
				return err
			}
			cur.Asserts = append(cur.Asserts, c)
		case "panics-when":
			c, err := mk(true)
			if err != nil {
				return err
			}
			cur.PanicsWhen = append(cur.PanicsWhen, c)
		case "modifies":
			c, _ := mk(false)
			cur.Modifies = append(cur.Modifies, c)
		case "invariant":
			if curLoop == nil {
				return fmt.Errorf("%s: invariant outside loop", src)
			}
			c, err := mk(true)
			if err != nil {
				return err
			}
			curLoop.Invariants = append(curLoop.Invariants, c)
		case "decreases":
			if curLoop == nil {
				return fmt.Errorf("%s: decreases outside loop", src)
			}
			c, err := mk(true)
			if err != nil {
				return err
			}
			curLoop.Decreases = c
		case "ghost":
			if curLoop != nil {
				// ghost update: lhs = rhs   (parsed later as assignment)
				c, _ := mk(false)
				curLoop.Ghost = append(curLoop.Ghost, c)
			} else {
				// declaration: ghost name type [= init]
				decl := it.rest
				var init Expr
				if k := topLevelAssign(decl); k >= 0 {
					e, err := parseExpr(decl[k+1:])
					if err != nil {
						return fmt.Errorf("%s: %v", src, err)
					}
					init = e
					decl = decl[:k]
				}
				f := strings.Fields(decl)
				if len(f) < 2 {
					return fmt.Errorf("%s: ghost decl needs name and type", src)
				}
				te, err := parseTypeExpr(strings.Join(f[1:], " "))
				if err != nil {
					return fmt.Errorf("%s: %v", src, err)
				}
				cur.Ghosts = append(cur.Ghosts, GhostDecl{f[0], te, init})
			}
		case "release-views":
			// release-views a = e; b = f: witnesses for the ghost views named by the lock invariant when the mutex is released
			if cur.Opts == nil {
				cur.Opts = map[string]string{}
			}
			cur.Opts["release-views"] = it.rest
		case "assume-body":
			// the body is verified only under this extra condition on its inputs; outside it the contract is assumed
			c, err := mk(true)
			if err != nil {
				return err
			}
			cur.AssumeBody = append(cur.AssumeBody, c)
		case "exit-ghost":
			c, _ := mk(false)
			cur.ExitGhost = append(cur.ExitGhost, c)
		case "ghost-at", "assume-at":
			// ghost-at Contains#1: lhs = rhs [when cond]
			k := strings.Index(it.rest, ":")
			if k < 0 {
				return fmt.Errorf("%s: ghost-at needs 'callee#k: lhs = rhs'", src)
			}
			nm := strings.TrimSpace(it.rest[:k])
			ord := 1
			if h := strings.Index(nm, "#"); h >= 0 {
				ord, _ = strconv.Atoi(nm[h+1:])
				nm = nm[:h]
			}
			cur.AtCall = append(cur.AtCall, &AtCall{Callee: nm, Ordinal: ord, Clause: &Clause{Kind: it.kw, Text: strings.TrimSpace(it.rest[k+1:]), Src: src}})
		case "ghost-param":
			f := strings.Fields(it.rest)
			if len(f) < 2 {
				return fmt.Errorf("%s: ghost-param needs name and type", src)
			}
			te, err := parseTypeExpr(strings.Join(f[1:], " "))
			if err != nil {
				return fmt.Errorf("%s: %v", src, err)
			}
			cur.GhostParam = append(cur.GhostParam, GhostDecl{Name: f[0], Type: te})
		case "arith":
			cur.Arith = strings.TrimSpace(it.rest)
		case "inline":
			cur.Inline = true
		case "pure":
			cur.Pure = true
		case "calllog":
			cur.CallLog = true
			if strings.Contains(it.rest, "impure") {
				cur.Opts["impure"] = "1"
			}
		case "trusted":
			cur.Trusted = true
			cur.Notes = append(cur.Notes, "trusted: "+it.rest)
		case "note":
			cur.Notes = append(cur.Notes, it.rest)
		case "opt":
			f := strings.Fields(it.rest)
			if len(f) >= 1 {
				v := "1"
				if len(f) > 1 {
					v = strings.Join(f[1:], " ")
				}
				cur.Opts[f[0]] = v
			}
		case "lock":
			c, _ := mk(false)
			cur.Lock = append(cur.Lock, c)
		case "refines":
			cur.Refines = append(cur.Refines, it.rest)
		case "use":
			c, err := mk(true)
			if err != nil {
				return err
			}
			cur.Uses = append(cur.Uses, c)
		case "finding":
			// finding KF01 when <expr>
			f := strings.SplitN(it.rest, " when ", 2)
			if len(f) != 2 {
				return fmt.Errorf("%s: finding needs 'ID when expr'", src)
			}
			e, err := parseExpr(f[1])
			if err != nil {
				return fmt.Errorf("%s: %v", src, err)
			}
			cur.Findings = append(cur.Findings, &Clause{Kind: "finding", Label: strings.TrimSpace(f[0]), Text: f[1], Expr: e, Src: src})
		case "call":
			// call moveDown#1 ghost lo = expr, x = expr
			f := strings.SplitN(it.rest, " ghost ", 2)
			if len(f) != 2 {
				return fmt.Errorf("%s: call hint needs 'callee#k ghost a = e'", src)
			}
			nm := strings.TrimSpace(f[0])
			ord := 0
			if k := strings.Index(nm, "#"); k >= 0 {
				ord, _ = strconv.Atoi(nm[k+1:])
				nm = nm[:k]
			}
			h := &CallHint{Callee: nm, Ordinal: ord, Ghost: map[string]Expr{}}
			for _, as := range splitTop(f[1], ';') {
				k := strings.Index(as, "=")
				if k < 0 {
					return fmt.Errorf("%s: bad ghost arg %q", src, as)
				}
				e, err := parseExpr(as[k+1:])
				if err != nil {
					return fmt.Errorf("%s: %v", src, err)
				}
				h.Ghost[strings.TrimSpace(as[:k])] = e
			}
			cur.Calls = append(cur.Calls, h)
		default:
			return fmt.Errorf("%s: unhandled clause %s", src, it.kw)
		}
	}
	return nil
}

// splitTop splits s on sep at paren depth 0.
func splitTop(s string, sep byte) []string {
	var out []string
	depth := 0
	start := 0
	for i := 0; i < len(s); i++ {
		switch s[i] {
		case '(', '[', '{':
			depth++
		case ')', ']', '}':
			depth--
		default:
			if s[i] == sep && depth == 0 {
				out = append(out, strings.TrimSpace(s[start:i]))
				start = i + 1
			}
		}
	}
	if strings.TrimSpace(s[start:]) != "" {
		out = append(out, strings.TrimSpace(s[start:]))
	}
	return out
}

func parsePredDef(s, kw string) (*PredDef, error) {
	// name(p1 T1, p2 T2) [ret] := body     | ufun name(p T) ret
	op := strings.Index(s, "(")
	if op < 0 {
		return nil, fmt.Errorf("pred needs '('")
	}
	name := strings.TrimSpace(s[:op])
	// find matching )
	depth := 0
	cl := -1
	for i := op; i < len(s); i++ {
		if s[i] == '(' {
			depth++
		} else if s[i] == ')' {
			depth--
			if depth == 0 {
				cl = i
				break
			}
		}
	}
	if cl < 0 {
		return nil, fmt.Errorf("pred: unbalanced parens")
	}
	pd := &PredDef{Name: name}
	for _, p := range splitTop(s[op+1:cl], ',') {
		f := strings.Fields(p)
		if len(f) < 2 {
			return nil, fmt.Errorf("pred param %q needs name and type", p)
		}
		te, err := parseTypeExpr(strings.Join(f[1:], " "))
		if err != nil {
			return nil, err
		}
		pd.Params = append(pd.Params, GhostDecl{Name: f[0], Type: te})
	}
	rest := strings.TrimSpace(s[cl+1:])
	if kw == "ufun" || kw == "gfield" {
		pd.Uninterp = kw == "ufun"
		pd.GField = kw == "gfield"
		if rest != "" {
			te, err := parseTypeExpr(rest)
			if err != nil {
				return nil, err
			}
			pd.Ret = &te
		}
		return pd, nil
	}
	k := strings.Index(rest, ":=")
	if k < 0 {
		return nil, fmt.Errorf("pred needs ':='")
	}
	if rt := strings.TrimSpace(rest[:k]); rt != "" {
		te, err := parseTypeExpr(rt)
		if err != nil {
			return nil, err
		}
		pd.Ret = &te
	}
	body, err := parseExpr(rest[k+2:])
	if err != nil {
		return nil, err
	}
	pd.Body = body
	return pd, nil
}

// ---------------------------------------------------------------- type expressions (ghost / quantifier types)

// TypeExpr: int | bool | T (type param or named Go type, resolved in context) | set[T] | map[K]V | bag[T] | seq[T] | *T | []T | ref
type TypeExpr struct {
	Kind string // "name", "set", "map", "bag", "seq", "ptr", "slice"
	Name string
	Args []TypeExpr
}

func (t TypeExpr) String() string {
	switch t.Kind {
	case "name":
		return t.Name
	case "ptr":
		return "*" + t.Args[0].String()
	case "slice":
		return "[]" + t.Args[0].String()
	case "map":
		return "map[" + t.Args[0].String() + "]" + t.Args[1].String()
	default:
		return t.Kind + "[" + t.Args[0].String() + "]"
	}
}

func parseTypeExpr(s string) (TypeExpr, error) {
	s = strings.TrimSpace(s)
	if s == "" {
		return TypeExpr{}, fmt.Errorf("empty type")
	}
	if strings.HasPrefix(s, "*") {
		a, err := parseTypeExpr(s[1:])
		return TypeExpr{Kind: "ptr", Args: []TypeExpr{a}}, err
	}
	if strings.HasPrefix(s, "[]") {
		a, err := parseTypeExpr(s[2:])
		return TypeExpr{Kind: "slice", Args: []TypeExpr{a}}, err
	}
	for _, k := range []string{"set", "bag", "seq"} {
		if strings.HasPrefix(s, k+"[") && strings.HasSuffix(s, "]") {
			a, err := parseTypeExpr(s[len(k)+1 : len(s)-1])
			return TypeExpr{Kind: k, Args: []TypeExpr{a}}, err
		}
	}
	if strings.HasPrefix(s, "map[") {
		depth := 0
		for i := 3; i < len(s); i++ {
			if s[i] == '[' {
				depth++
			} else if s[i] == ']' {
				depth--
				if depth == 0 {
					k, err := parseTypeExpr(s[4:i])
					if err != nil {
						return TypeExpr{}, err
					}
					v, err := parseTypeExpr(s[i+1:])
					return TypeExpr{Kind: "map", Args: []TypeExpr{k, v}}, err
				}
			}
		}
		return TypeExpr{}, fmt.Errorf("bad map type %q", s)
	}
	return TypeExpr{Kind: "name", Name: s}, nil
}

// ---------------------------------------------------------------- expressions

type Expr interface{ exprNode() }

type (
	EIdent struct{ Name string }
	EInt   struct{ Val string }
	EStr   struct{ Val string }
	EBool  struct{ Val bool }
	ENil   struct{}
	EUn    struct {
		Op string
		X  Expr
	}
	EBin struct {
		Op   string
		X, Y Expr
	}
	ECond  struct{ C, A, B Expr }
	ECall  struct {
		Fn   string
		Args []Expr
	}
	EIndex struct{ X, I Expr }
	ESlice struct{ X, Lo, Hi Expr }
	EField struct {
		X    Expr
		Name string
	}
	EQuant struct {
		Forall bool
		Vars   []GhostDecl
		Body   Expr
		Pats   [][]Expr // optional :pattern
	}
	EOld  struct{ X Expr }
	EAddr struct{ X Expr } // &x.f
	ELet  struct {
		Name string
		Val  Expr
		Body Expr
	}
	ELambda struct {
		Var  GhostDecl
		Body Expr
	}
)

func (EIdent) exprNode() {}
func (EInt) exprNode()   {}
func (EStr) exprNode()   {}
func (EBool) exprNode()  {}
func (ENil) exprNode()   {}
func (EUn) exprNode()    {}
func (EBin) exprNode()   {}
func (ECond) exprNode()  {}
func (ECall) exprNode()  {}
func (EIndex) exprNode() {}
func (ESlice) exprNode() {}
func (EField) exprNode() {}
func (EQuant) exprNode() {}
func (EOld) exprNode()   {}
func (EAddr) exprNode()  {}
func (ELet) exprNode()   {}
func (ELambda) exprNode() {}

type tok struct {
	k string // "id" "int" "op" "eof"
	s string
}

func lex(s string) ([]tok, error) {
	var out []tok
	i := 0
	for i < len(s) {
		c := s[i]
		switch {
		case c == ' ' || c == '\t' || c == '\n':
			i++
		case c >= '0' && c <= '9':
			j := i
			for j < len(s) && (s[j] >= '0' && s[j] <= '9' || s[j] == '_') {
				j++
			}
			out = append(out, tok{"int", strings.ReplaceAll(s[i:j], "_", "")})
			i = j
		case c == '"':
			j := i + 1
			for j < len(s) && s[j] != '"' {
				j++
			}
			if j >= len(s) {
				return nil, fmt.Errorf("unterminated string literal")
			}
			out = append(out, tok{"str", s[i+1 : j]})
			i = j + 1
		case c == '_' || c == '$' || c >= 'a' && c <= 'z' || c >= 'A' && c <= 'Z':
			j := i
			for j < len(s) && (s[j] == '_' || s[j] == '$' || s[j] == '#' || s[j] >= 'a' && s[j] <= 'z' || s[j] >= 'A' && s[j] <= 'Z' || s[j] >= '0' && s[j] <= '9') {
				j++
			}
			out = append(out, tok{"id", s[i:j]})
			i = j
		default:
			ops := []string{"<==>", "==>", "::", ":=", "==", "!=", "<=", ">=", "&&", "||", "..", "+", "-", "*", "/", "%", "<", ">", "!", "(", ")", "[", "]", ",", ".", "?", ":", "&", "{", "}", "@"}
			matched := false
			for _, o := range ops {
				if strings.HasPrefix(s[i:], o) {
					out = append(out, tok{"op", o})
					i += len(o)
					matched = true
					break
				}
			}
			if !matched {
				return nil, fmt.Errorf("unexpected character %q", c)
			}
		}
	}
	out = append(out, tok{"eof", ""})
	return out, nil
}

type parser struct {
	toks []tok
	p    int
	noIn bool // inside `let x := <here> in ...` the word `in` ends the value, it is not the membership operator
}

func parseExpr(s string) (Expr, error) {
	toks, err := lex(s)
	if err != nil {
		return nil, err
	}
	ps := &parser{toks: toks}
	e, err := ps.expr()
	if err != nil {
		return nil, err
	}
	if ps.peek().k != "eof" {
		return nil, fmt.Errorf("unexpected %q after expression", ps.peek().s)
	}
	return e, nil
}

func (p *parser) peek() tok { return p.toks[p.p] }
func (p *parser) next() tok { t := p.toks[p.p]; p.p++; return t }
func (p *parser) isOp(s string) bool {
	t := p.peek()
	return t.k == "op" && t.s == s
}
func (p *parser) accept(s string) bool {
	if p.isOp(s) {
		p.p++
		return true
	}
	return false
}
func (p *parser) expect(s string) error {
	if !p.accept(s) {
		return fmt.Errorf("expected %q, got %q", s, p.peek().s)
	}
	return nil
}

func (p *parser) expr() (Expr, error) {
	t := p.peek()
	if t.k == "id" && (t.s == "forall" || t.s == "exists") {
		p.next()
		var vars []GhostDecl
		for {
			nm := p.next()
			if nm.k != "id" {
				return nil, fmt.Errorf("quantifier: expected variable name")
			}
			// type: tokens until ',' or '::'
			var ts []string
			depth := 0
			for {
				tt := p.peek()
				if tt.k == "eof" {
					return nil, fmt.Errorf("quantifier: missing '::'")
				}
				if depth == 0 && tt.k == "op" && (tt.s == "," || tt.s == "::") {
					break
				}
				if tt.s == "[" {
					depth++
				} else if tt.s == "]" {
					depth--
				}
				ts = append(ts, tt.s)
				p.next()
			}
			te, err := parseTypeExpr(strings.Join(ts, ""))
			if err != nil {
				return nil, err
			}
			vars = append(vars, GhostDecl{Name: nm.s, Type: te})
			if p.accept(",") {
				continue
			}
			if err := p.expect("::"); err != nil {
				return nil, err
			}
			break
		}
		var pats [][]Expr
		for p.isOp("{") {
			p.next()
			var pat []Expr
			for {
				e, err := p.expr()
				if err != nil {
					return nil, err
				}
				pat = append(pat, e)
				if !p.accept(",") {
					break
				}
			}
			if err := p.expect("}"); err != nil {
				return nil, err
			}
			pats = append(pats, pat)
		}
		body, err := p.expr()
		if err != nil {
			return nil, err
		}
		return EQuant{Forall: t.s == "forall", Vars: vars, Body: body, Pats: pats}, nil
	}
	if t.k == "id" && t.s == "lambda" {
		p.next()
		nm := p.next()
		if nm.k != "id" {
			return nil, fmt.Errorf("lambda: expected variable name")
		}
		var ts []string
		depth := 0
		for {
			tt := p.peek()
			if tt.k == "eof" {
				return nil, fmt.Errorf("lambda: missing '::'")
			}
			if depth == 0 && tt.k == "op" && tt.s == "::" {
				break
			}
			if tt.s == "[" {
				depth++
			} else if tt.s == "]" {
				depth--
			}
			ts = append(ts, tt.s)
			p.next()
		}
		p.next()
		te, err := parseTypeExpr(strings.Join(ts, ""))
		if err != nil {
			return nil, err
		}
		body, err := p.expr()
		if err != nil {
			return nil, err
		}
		return ELambda{GhostDecl{Name: nm.s, Type: te}, body}, nil
	}
	if t.k == "id" && t.s == "let" {
		p.next()
		nm := p.next()
		if err := p.expect(":="); err != nil {
			return nil, err
		}
		saved := p.noIn
		p.noIn = true
		v, err := p.ternary()
		p.noIn = saved
		if err != nil {
			return nil, err
		}
		if !(p.peek().k == "id" && p.peek().s == "in") {
			return nil, fmt.Errorf("let: expected 'in'")
		}
		p.next()
		b, err := p.expr()
		if err != nil {
			return nil, err
		}
		return ELet{nm.s, v, b}, nil
	}
	return p.iff()
}

func (p *parser) iff() (Expr, error) {
	x, err := p.implies()
	if err != nil {
		return nil, err
	}
	for p.accept("<==>") {
		var y Expr
		if t := p.peek(); t.k == "id" && (t.s == "forall" || t.s == "exists" || t.s == "let") {
			y, err = p.expr()
		} else {
			y, err = p.implies()
		}
		if err != nil {
			return nil, err
		}
		x = EBin{"<==>", x, y}
	}
	return x, nil
}

func (p *parser) implies() (Expr, error) {
	x, err := p.ternary()
	if err != nil {
		return nil, err
	}
	if p.accept("==>") {
		// right assoc; rhs may be a quantifier
		var y Expr
		if t := p.peek(); t.k == "id" && (t.s == "forall" || t.s == "exists" || t.s == "let") {
			y, err = p.expr()
		} else {
			y, err = p.implies()
		}
		if err != nil {
			return nil, err
		}
		return EBin{"==>", x, y}, nil
	}
	return x, nil
}

func (p *parser) ternary() (Expr, error) {
	c, err := p.or()
	if err != nil {
		return nil, err
	}
	if p.accept("?") {
		a, err := p.ternary()
		if err != nil {
			return nil, err
		}
		if err := p.expect(":"); err != nil {
			return nil, err
		}
		b, err := p.ternary()
		if err != nil {
			return nil, err
		}
		return ECond{c, a, b}, nil
	}
	return c, nil
}

func (p *parser) or() (Expr, error) {
	x, err := p.and()
	if err != nil {
		return nil, err
	}
	for p.accept("||") {
		var y Expr
		if t := p.peek(); t.k == "id" && (t.s == "forall" || t.s == "exists") {
			y, err = p.expr()
		} else {
			y, err = p.and()
		}
		if err != nil {
			return nil, err
		}
		x = EBin{"||", x, y}
	}
	return x, nil
}

func (p *parser) and() (Expr, error) {
	x, err := p.cmp()
	if err != nil {
		return nil, err
	}
	for p.accept("&&") {
		var y Expr
		if t := p.peek(); t.k == "id" && (t.s == "forall" || t.s == "exists") {
			y, err = p.expr()
		} else {
			y, err = p.cmp()
		}
		if err != nil {
			return nil, err
		}
		x = EBin{"&&", x, y}
	}
	return x, nil
}

func (p *parser) cmp() (Expr, error) {
	x, err := p.add()
	if err != nil {
		return nil, err
	}
	for {
		t := p.peek()
		if t.k == "op" && (t.s == "==" || t.s == "!=" || t.s == "<" || t.s == "<=" || t.s == ">" || t.s == ">=") {
			p.next()
			y, err := p.add()
			if err != nil {
				return nil, err
			}
			x = EBin{t.s, x, y}
			continue
		}
		if t.k == "id" && t.s == "in" && !p.noIn {
			p.next()
			y, err := p.add()
			if err != nil {
				return nil, err
			}
			x = EBin{"in", x, y}
			continue
		}
		return x, nil
	}
}

func (p *parser) add() (Expr, error) {
	x, err := p.mul()
	if err != nil {
		return nil, err
	}
	for {
		t := p.peek()
		if t.k == "op" && (t.s == "+" || t.s == "-") {
			p.next()
			y, err := p.mul()
			if err != nil {
				return nil, err
			}
			x = EBin{t.s, x, y}
			continue
		}
		return x, nil
	}
}

func (p *parser) mul() (Expr, error) {
	x, err := p.unary()
	if err != nil {
		return nil, err
	}
	for {
		t := p.peek()
		if t.k == "op" && (t.s == "*" || t.s == "/" || t.s == "%") {
			p.next()
			y, err := p.unary()
			if err != nil {
				return nil, err
			}
			x = EBin{t.s, x, y}
			continue
		}
		return x, nil
	}
}

func (p *parser) unary() (Expr, error) {
	if p.accept("!") {
		x, err := p.unary()
		if err != nil {
			return nil, err
		}
		return EUn{"!", x}, nil
	}
	if p.accept("-") {
		x, err := p.unary()
		if err != nil {
			return nil, err
		}
		return EUn{"-", x}, nil
	}
	if p.accept("&") {
		x, err := p.unary()
		if err != nil {
			return nil, err
		}
		return EAddr{x}, nil
	}
	return p.postfix()
}

func (p *parser) postfix() (Expr, error) {
	x, err := p.primary()
	if err != nil {
		return nil, err
	}
	for {
		switch {
		case p.accept("."):
			t := p.next()
			if t.k != "id" {
				return nil, fmt.Errorf("expected field name after '.'")
			}
			x = EField{x, t.s}
		case p.accept("["):
			// index or slice
			var lo, hi Expr
			if !p.isOp("..") && !p.isOp(":") {
				lo, err = p.expr()
				if err != nil {
					return nil, err
				}
			}
			if p.accept("..") || p.accept(":") {
				if !p.isOp("]") {
					hi, err = p.expr()
					if err != nil {
						return nil, err
					}
				}
				if err := p.expect("]"); err != nil {
					return nil, err
				}
				x = ESlice{x, lo, hi}
			} else {
				if err := p.expect("]"); err != nil {
					return nil, err
				}
				x = EIndex{x, lo}
			}
		default:
			return x, nil
		}
	}
}

func (p *parser) primary() (Expr, error) {
	t := p.next()
	switch t.k {
	case "int":
		return EInt{t.s}, nil
	case "str":
		return EStr{t.s}, nil
	case "id":
		switch t.s {
		case "true":
			return EBool{true}, nil
		case "false":
			return EBool{false}, nil
		case "nil":
			return ENil{}, nil
		}
		if p.isOp("(") {
			p.next()
			var args []Expr
			if !p.isOp(")") {
				for {
					a, err := p.expr()
					if err != nil {
						return nil, err
					}
					args = append(args, a)
					if !p.accept(",") {
						break
					}
				}
			}
			if err := p.expect(")"); err != nil {
				return nil, err
			}
			if t.s == "old" {
				if len(args) != 1 {
					return nil, fmt.Errorf("old takes one argument")
				}
				return EOld{args[0]}, nil
			}
			return ECall{t.s, args}, nil
		}
		return EIdent{t.s}, nil
	case "op":
		if t.s == "(" {
			e, err := p.expr()
			if err != nil {
				return nil, err
			}
			if err := p.expect(")"); err != nil {
				return nil, err
			}
			return e, nil
		}
	}
	return nil, fmt.Errorf("unexpected token %q", t.s)
}

// specText: all clause texts of a spec (used to decide which axioms and predicates it mentions).
func (sp *FuncSpec) specText() string {
	var b strings.Builder
	add := func(cs []*Clause) {
		for _, c := range cs {
			b.WriteString(c.Text)
			b.WriteByte(' ')
		}
	}
	add(sp.Requires)
	add(sp.Ensures)
	add(sp.Asserts)
	add(sp.Lemmas)
	add(sp.ExitGhost)
	for _, a := range sp.AtCall {
		b.WriteString(a.Clause.Text + " ")
	}
	add(sp.Uses)
	for _, l := range sp.Loops {
		add(l.Lemmas)
		add(l.Invariants)
		add(l.Ghost)
	}
	for _, g := range sp.Ghosts {
		b.WriteString(g.Name + " ")
	}
	return b.String()
}

func mentions(text, name string) bool {
	for i := 0; ; {
		k := strings.Index(text[i:], name)
		if k < 0 {
			return false
		}
		k += i
		before := k == 0 || !isIdentChar(text[k-1])
		after := k+len(name) >= len(text) || !isIdentChar(text[k+len(name)])
		if before && after {
			return true
		}
		i = k + len(name)
	}
}

func isIdentChar(c byte) bool {
	return c == '_' || c >= 'a' && c <= 'z' || c >= 'A' && c <= 'Z' || c >= '0' && c <= '9'
}

// axiomsFor: axioms naming an uninterpreted function that the spec mentions, directly or through predicates.
func (cs *ContractSet) axiomsFor(sp *FuncSpec) []*AxiomDef {
	text := sp.specText()
	// close over predicate bodies
	seen := map[string]bool{}
	for changed := true; changed; {
		changed = false
		for name, pd := range cs.Preds {
			if !seen[name] && mentions(text, name) {
				seen[name] = true
				changed = true
				text += " " + pd.Text
			}
		}
	}
	var out []*AxiomDef
	for _, ax := range cs.Axioms {
		for name, pd := range cs.Preds {
			if pd.Uninterp && seen[name] && mentions(ax.Text, name) {
				out = append(out, ax)
				break
			}
		}
	}
	return out
}

// modeSkip: a clause tagged [seq] is only used in the sequential proof, one tagged [conc] only in concurrent mode.
func modeSkip(c *Clause, conc bool) bool {
	return (c.Tag == "seq" && conc) || (c.Tag == "conc" && !conc)
}

package main

import (
	"fmt"
	"go/ast"
	"go/token"
	"go/types"
	"os"
	"path/filepath"
	"sort"
	"strings"

	"golang.org/x/tools/go/packages"
	"golang.org/x/tools/go/ssa"
	"golang.org/x/tools/go/ssa/ssautil"
)

// World is everything loaded from /repo for one run.
type World struct {
	RepoDir string
	Fset    *token.FileSet
	Pkgs    []*packages.Package
	Prog    *ssa.Program
	SPkgs   []*ssa.Package
	// all functions (generic origins, methods, closures) by contract key
	Funcs map[string]*ssa.Function
	// contracts by key
	Contracts *ContractSet
	// package of each directory that holds a contract file
	DirPkg map[string]*types.Package
}

const modulePath = "github.com/esimov/gogu"

// funcKey is the name under which a function is addressed in contract files:
//
//	gogu.IndexOf, (*heap.Heap).Pop, heap.swap, (list.DList).x, gogu.Memoize$1
func funcKey(f *ssa.Function) string {
	if f.Origin() != nil {
		f = f.Origin()
	}
	if f.Parent() != nil {
		// closure: parentKey$N
		p := f.Parent()
		idx := 0
		for i, af := range p.AnonFuncs {
			if af == f {
				idx = i + 1
			}
		}
		return fmt.Sprintf("%s$%d", funcKey(p), idx)
	}
	pkgName := ""
	if f.Pkg != nil {
		pkgName = f.Pkg.Pkg.Name()
	} else if f.Object() != nil && f.Object().Pkg() != nil {
		pkgName = f.Object().Pkg().Name()
	}
	if recv := f.Signature.Recv(); recv != nil {
		t := recv.Type()
		star := ""
		if p, ok := t.(*types.Pointer); ok {
			t = p.Elem()
			star = "*"
		}
		tn := ""
		if n, ok := t.(*types.Named); ok {
			tn = n.Obj().Name()
			if n.Obj().Pkg() != nil {
				pkgName = n.Obj().Pkg().Name()
			}
		} else {
			tn = t.String()
		}
		return fmt.Sprintf("(%s%s.%s).%s", star, pkgName, tn, f.Name())
	}
	return pkgName + "." + f.Name()
}

func loadWorld(repo string) (*World, error) {
	cfg := &packages.Config{
		Mode:       packages.LoadAllSyntax,
		Dir:        repo,
		BuildFlags: []string{"-tags=verif"},
		Env:        append(os.Environ(), "GOFLAGS=-mod=mod", "GOPROXY=off", "GOSUMDB=off", "GOTOOLCHAIN=local"),
	}
	pkgs, err := packages.Load(cfg, "./...")
	if err != nil {
		return nil, err
	}
	nerr := 0
	packages.Visit(pkgs, nil, func(p *packages.Package) {
		for _, e := range p.Errors {
			if strings.HasPrefix(p.PkgPath, modulePath) {
				fmt.Fprintf(os.Stderr, "load error: %s: %v\n", p.PkgPath, e)
				nerr++
			}
		}
	})
	if nerr > 0 {
		return nil, fmt.Errorf("%d load errors in module packages (the tree does not compile with -tags verif)", nerr)
	}
	prog, spkgs := ssautil.AllPackages(pkgs, ssa.GlobalDebug)
	prog.Build()
	w := &World{RepoDir: repo, Pkgs: pkgs, Prog: prog, SPkgs: spkgs, Funcs: map[string]*ssa.Function{}}
	if len(pkgs) > 0 {
		w.Fset = pkgs[0].Fset
	}
	for f := range ssautil.AllFunctions(prog) {
		if f.Pkg == nil && f.Origin() == nil {
			continue
		}
		g := f
		if g.Origin() != nil {
			g = g.Origin()
		}
		var pk *types.Package
		if g.Pkg != nil {
			pk = g.Pkg.Pkg
		}
		if pk == nil || !strings.HasPrefix(pk.Path(), modulePath) {
			continue
		}
		if g.Synthetic != "" && g.Parent() == nil {
			// wrappers, thunks, bounds, init
			if g.Name() != "init" {
				continue
			}
		}
		w.Funcs[funcKey(g)] = g
	}
	// methods of (generic) named types are not reachable from any root: add them through their objects
	for _, p := range pkgs {
		if !strings.HasPrefix(p.PkgPath, modulePath) || p.Types == nil {
			continue
		}
		sc := p.Types.Scope()
		for _, name := range sc.Names() {
			tn, ok := sc.Lookup(name).(*types.TypeName)
			if !ok {
				continue
			}
			n, ok := tn.Type().(*types.Named)
			if !ok {
				continue
			}
			for i := 0; i < n.NumMethods(); i++ {
				if f := prog.FuncValue(n.Method(i)); f != nil {
					g := f
					if g.Origin() != nil {
						g = g.Origin()
					}
					w.Funcs[funcKey(g)] = g
					for _, af := range g.AnonFuncs {
						w.Funcs[funcKey(af)] = af
					}
				}
			}
		}
	}
	// contracts
	cs := newContractSet()
	for _, p := range pkgs {
		if !strings.HasPrefix(p.PkgPath, modulePath) {
			continue
		}
		for i, f := range p.Syntax {
			name := p.CompiledGoFiles[i]
			if !strings.HasSuffix(name, "_verif.go") {
				continue
			}
			if err := cs.parseGoFile(name, f, p.Fset); err != nil {
				return nil, err
			}
			if w.DirPkg == nil {
				w.DirPkg = map[string]*types.Package{}
			}
			w.DirPkg[filepath.Dir(name)] = p.Types
		}
	}
	w.Contracts = cs
	return w, nil
}

func (w *World) loadExtern(dir string) error {
	files, _ := filepath.Glob(filepath.Join(dir, "*.ctr"))
	sort.Strings(files)
	for _, f := range files {
		b, err := os.ReadFile(f)
		if err != nil {
			return err
		}
		if err := w.Contracts.parseText(f, string(b), true); err != nil {
			return err
		}
	}
	return nil
}

// position string relative to the repo
func (w *World) pos(p token.Pos) string {
	if !p.IsValid() {
		return "-"
	}
	ps := w.Fset.Position(p)
	rel, err := filepath.Rel(w.RepoDir, ps.Filename)
	if err != nil {
		rel = ps.Filename
	}
	return fmt.Sprintf("%s:%d", rel, ps.Line)
}

// commentLines returns the //@ lines of a Go file in order.
func commentLines(f *ast.File) []string {
	var out []string
	for _, cg := range f.Comments {
		for _, c := range cg.List {
			t := c.Text
			if strings.HasPrefix(t, "//@") {
				out = append(out, strings.TrimPrefix(t, "//@"))
			} else if strings.HasPrefix(t, "// @") { // gofmt'd doc comment form
				out = append(out, strings.TrimPrefix(t, "// @"))
			}
		}
	}
	return out
}

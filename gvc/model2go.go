package main

// tryModelReplay turns a solver model into inputs of the function under contract and replays them on
// the real code. (Filled in below for the input shapes the generator can build.)
func tryModelReplay(w *World, rf *ReplayFile, r OblResult, model string, wd string) bool {
	return false
}

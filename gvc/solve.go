package main

import (
	"bytes"
	"context"
	"fmt"
	"os"
	"os/exec"
	"path/filepath"
	"strings"
	"sync"
	"time"
)

type OblResult struct {
	Func    string  `json:"func"`
	Name    string  `json:"name"`
	Kind    string  `json:"kind"`
	Tag     string  `json:"tag,omitempty"`
	Info    string  `json:"info,omitempty"`
	Pos     string  `json:"pos,omitempty"`
	Status  string  `json:"status"` // discharged | refuted | undecided
	Solver  string  `json:"solver,omitempty"`
	Secs    float64 `json:"secs"`
	Bytes   int     `json:"smt_bytes"`
	Output  string  `json:"-"`
	Script  string  `json:"-"`
	Agree   map[string]string `json:"agree,omitempty"`
}

type SolveOpts struct {
	Timeout  time.Duration // per solver attempt
	Seed     int
	AllSolvers bool
	WorkDir  string
	Keep     bool
}

type solverDef struct {
	name string
	cmd  func(file string, secs int) []string
	pre  func(seed int) string
}

var solvers = []solverDef{
	{"z3-new-5.1.0", func(f string, s int) []string { return []string{"z3-new", fmt.Sprintf("-T:%d", s), f} },
		func(seed int) string { return fmt.Sprintf("(set-option :smt.random_seed %d)\n(set-option :sat.random_seed %d)\n", seed, seed) }},
	{"z3-4.8.12", func(f string, s int) []string { return []string{"z3", fmt.Sprintf("-T:%d", s), f} },
		func(seed int) string { return fmt.Sprintf("(set-option :smt.random_seed %d)\n", seed) }},
	{"cvc5-1.0.3", func(f string, s int) []string {
		return []string{"cvc5", fmt.Sprintf("--tlimit=%d", s*1000), "--seed=" + "1", f}
	}, func(seed int) string { return "" }},
}

// oblGroup: obligations of one group (the clauses of one ensures list, of one invariant at one cut, ...) are
// proved in order and a later clause may use the earlier ones of its group as hypotheses.
func oblGroup(name string) string {
	var b strings.Builder
	depth := 0
	for _, r := range name {
		switch {
		case r == '[':
			depth++
			b.WriteRune(r)
		case r == ']':
			depth--
			b.WriteRune(r)
		case depth > 0 && r >= '0' && r <= '9':
		default:
			b.WriteRune(r)
		}
	}
	g := b.String()
	if k := strings.Index(g, "#"); k >= 0 {
		if h := strings.LastIndex(g, "#"); h > k && allDigits(g[h+1:]) {
			g = g[:h]
		}
	}
	return g
}

func allDigits(s string) bool {
	s = strings.TrimSuffix(s, "@conc")
	if s == "" {
		return false
	}
	for _, r := range s {
		if r < '0' || r > '9' {
			return false
		}
	}
	return true
}

func buildScript(fr *FuncResult, upto int, goal string, pre string) string {
	return buildScriptX(fr, upto, goal, pre, false)
}

// buildScriptX: with assumptionsOnly the earlier obligations are left out (used by the vacuity check: a failing
// obligation asserted as a hypothesis would make the context contradictory for a reason that is not vacuity).
func buildScriptX(fr *FuncResult, upto int, goal string, pre string, assumptionsOnly bool) string {
	var b strings.Builder
	b.WriteString(pre)
	b.WriteString("(set-logic ALL)\n")
	for _, d := range fr.Decls {
		b.WriteString(d)
		b.WriteByte('\n')
	}
	grp := ""
	if upto < len(fr.Facts) && fr.Facts[upto].Oblig && fr.Spec != nil && fr.Spec.Opts["group-hyps"] != "" {
		grp = oblGroup(fr.Facts[upto].Name)
	}
	// opt path-hyps: proof hints of the form `assert P ==> (G)` split a goal G by path condition P. A hint is proved
	// from the earlier hints of its own path (and the unconditional ones); the unconditional `assert G` that closes
	// a group is proved from the conditional hints right before it; everything else sees only unconditional hints.
	pathHyps := upto < len(fr.Facts) && fr.Facts[upto].Oblig && fr.Spec != nil && fr.Spec.Opts["path-hyps"] != ""
	myAnte := ""
	ownGroup := map[int]bool{}
	if pathHyps {
		if strings.HasPrefix(fr.Facts[upto].Kind, "assert") || strings.Contains(fr.Facts[upto].Name, "#assert[") {
			myAnte = hintAntecedent(fr.Facts[upto].Info)
			if myAnte == "" {
				for j := upto - 1; j >= 0; j-- {
					f := fr.Facts[j]
					if !f.Oblig {
						continue
					}
					if !strings.Contains(f.Name, "#assert[") || hintAntecedent(f.Info) == "" {
						break
					}
					ownGroup[j] = true
				}
			}
		}
	}
	myRegion := ""
	if pathHyps && fr.Spec.Opts["region-hyps"] != "" {
		myRegion = hintRegion(fr.Facts[upto].Info)
		if strings.HasSuffix(myRegion, "[n]") || strings.HasSuffix(myRegion, "[result]") || strings.HasSuffix(myRegion, "[t.root]") {
			myRegion = "" // a goal about a whole subtree combines the hints of its regions
		}
	}
	regionStrict := pathHyps && fr.Spec.Opts["region-strict"] != ""
	firstOfPath := -1
	if regionStrict && myRegion != "" {
		for j := 0; j < upto; j++ {
			if fr.Facts[j].Oblig && strings.Contains(fr.Facts[j].Name, "#assert[") && hintAntecedent(fr.Facts[j].Info) == myAnte {
				firstOfPath = j
				break
			}
		}
	}
	// a goal about a whole subtree W ("forall x :: { x in nrepr[W] } x in nrepr[W] && x != W ==> G") is proved from the
	// hints that establish the same G region by region, the hints about nrepr[W] itself (its decomposition into
	// regions) and the first hint of the path
	wRegion, wGoal := "", ""
	if regionStrict {
		if r := hintRegion(fr.Facts[upto].Info); r != "" && myRegion == "" {
			wRegion, wGoal = r, hintGoal(fr.Facts[upto].Info)
			for j := 0; j < upto; j++ {
				if fr.Facts[j].Oblig && strings.Contains(fr.Facts[j].Name, "#assert[") && hintAntecedent(fr.Facts[j].Info) == myAnte {
					firstOfPath = j
					break
				}
			}
		}
	}
	myPart := ""
	if pathHyps && fr.Spec.Opts["region-hyps"] != "" {
		myPart = hintPart(fr.Facts[upto].Info)
	}
	for j := 0; j < upto; j++ {
		if assumptionsOnly && fr.Facts[j].Oblig {
			continue
		}
		if pathHyps && fr.Facts[j].Oblig && strings.Contains(fr.Facts[j].Name, "#assert[") {
			if a := hintAntecedent(fr.Facts[j].Info); a != "" && a != myAnte && !ownGroup[j] {
				continue
			}
			// within one path: a hint about the objects of one region (forall x :: { x in R } ...) is proved
			// without the hints about the other regions
			if myRegion != "" {
				r := hintRegion(fr.Facts[j].Info)
				if r != "" && r != myRegion {
					continue
				}
				// region-strict: besides the hints of its own region a region hint sees only the first hint of
				// its path (the structural summary of what the path did)
				if r == "" && regionStrict && hintAntecedent(fr.Facts[j].Info) == myAnte && j != firstOfPath {
					continue
				}
			}
			// a path hint that is not about one region (the final goals of a path) does not need the per-region hints
			// about single objects (forall x :: { x in R } ...), only those about whole subtrees and set relations
			if regionStrict && myRegion == "" && wGoal == "" && myAnte != "" && hintAntecedent(fr.Facts[j].Info) == myAnte {
				if r := hintRegion(fr.Facts[j].Info); r != "" && strings.Contains(fr.Facts[j].Info, "(forall x *node :: { x in ") {
					continue
				}
			}
			if wGoal != "" && hintAntecedent(fr.Facts[j].Info) == myAnte && j != firstOfPath {
				if hintGoal(fr.Facts[j].Info) != wGoal && hintRegion(fr.Facts[j].Info) != wRegion {
					continue
				}
			}
			// a hint about one conjunct predicate (... ==> ioK(x, ...)) does not need the hints about its sibling conjuncts
			if myPart != "" {
				if q := hintPart(fr.Facts[j].Info); q != "" && q != myPart {
					continue
				}
			}
		}
		if f := fr.Facts[j]; f.Oblig && grp != "" && oblGroup(f.Name) != grp && !strings.HasPrefix(f.Kind, "assert") && !strings.Contains(f.Kind, "lemma") && (strings.Contains(f.Term, "(forall ") || strings.Contains(f.Term, "(exists ")) {
			// an earlier quantified obligation of another group: proved separately, not needed as a hypothesis here
			continue
		}
		b.WriteString("(assert ")
		b.WriteString(fr.Facts[j].Term)
		b.WriteString(")\n")
	}
	if goal != "" {
		b.WriteString("(assert ")
		b.WriteString(goal)
		b.WriteString(")\n")
	}
	b.WriteString("(check-sat)\n")
	return b.String()
}

// hintAntecedent: P for a hint whose text is "hint: P ==> (G)", "" otherwise.
func hintAntecedent(info string) string {
	t := strings.TrimPrefix(info, "hint: ")
	if !strings.HasSuffix(strings.TrimSpace(t), ")") {
		return ""
	}
	k := strings.Index(t, " ==> (")
	if k < 0 {
		return ""
	}
	// the antecedent must not itself contain a quantifier or an implication at top level (keep it simple: no "::")
	if strings.Contains(t[:k], "::") || strings.Contains(t[:k], "==>") {
		return ""
	}
	return strings.TrimSpace(t[:k])
}

// hintRegion: R for a hint "hint: P ==> (forall x T :: { x in R } ...)", "" otherwise.
func hintRegion(info string) string {
	k := strings.Index(info, " ==> (forall ")
	if k < 0 || hintAntecedent(info) == "" {
		return ""
	}
	t := info[k+len(" ==> (forall "):]
	b := strings.Index(t, ":: { ")
	if b < 0 || b > 40 {
		return ""
	}
	t = t[b+len(":: { "):]
	in := strings.Index(t, " in ")
	e := strings.Index(t, " }")
	if in < 0 || e < 0 || in > e {
		return ""
	}
	return strings.TrimSpace(t[in+4 : e])
}

// hintGoal: G for a hint "hint: P ==> (forall x T :: { x in R } <guard> ==> G)", "" otherwise.
func hintGoal(info string) string {
	if hintRegion(info) == "" {
		return ""
	}
	k := strings.Index(info, " }")
	if k < 0 {
		return ""
	}
	t := info[k+2:]
	a := strings.Index(t, " ==> ")
	if a < 0 {
		return ""
	}
	return strings.TrimSpace(t[a+5:])
}

// hintPart: the conjunct predicate a hint establishes when its text ends in "==> ioXX(x, ...)))" or "(ioXX(W, ...))".
func hintPart(info string) string {
	k := strings.LastIndex(info, "io")
	if k < 0 || hintAntecedent(info) == "" {
		return ""
	}
	t := info[k:]
	p := strings.Index(t, "(")
	if p < 3 || p > 6 {
		return ""
	}
	// must be the last call in the text
	if strings.Count(t, "(") != 1+strings.Count(t[p+1:], "(") {
		return ""
	}
	pre := strings.TrimRight(info[:k], " ")
	if !strings.HasSuffix(pre, "==>") && !strings.HasSuffix(pre, "(") {
		return ""
	}
	return t[:p]
}

func runSolver(sd solverDef, script string, file string, timeout time.Duration, seed int) (string, string, float64) {
	return runSolverCtx(context.Background(), sd, script, file, timeout, seed)
}

func runSolverCtx(parent context.Context, sd solverDef, script string, file string, timeout time.Duration, seed int) (string, string, float64) {
	full := sd.pre(seed) + script
	if err := os.WriteFile(file, []byte(full), 0o644); err != nil {
		return "error", err.Error(), 0
	}
	secs := int(timeout.Seconds())
	if secs < 1 {
		secs = 1
	}
	ctx, cancel := context.WithTimeout(parent, timeout+3*time.Second)
	defer cancel()
	args := sd.cmd(file, secs)
	cmd := exec.CommandContext(ctx, args[0], args[1:]...)
	var out bytes.Buffer
	cmd.Stdout = &out
	cmd.Stderr = &out
	t0 := time.Now()
	_ = cmd.Run()
	el := time.Since(t0).Seconds()
	o := out.String()
	first := strings.TrimSpace(strings.SplitN(o, "\n", 2)[0])
	switch first {
	case "unsat", "sat", "unknown", "timeout":
		return first, o, el
	}
	if ctx.Err() != nil {
		return "timeout", o, el
	}
	if strings.Contains(o, "timeout") || strings.Contains(o, "interrupted") {
		return "timeout", o, el
	}
	return "error", o, el
}

var portSem = make(chan struct{}, 4)

// solveObligation: portfolio. unsat from any solver discharges; sat from any refutes.
func solveObligation(fr *FuncResult, idx int, opts SolveOpts, id int) OblResult {
	f := fr.Facts[idx]
	script := buildScript(fr, idx, "(not "+stripIxAlt(f.Term)+")", "")
	res := OblResult{Func: fr.Key, Name: f.Name, Kind: f.Kind, Tag: f.Tag, Info: f.Info, Status: "undecided", Bytes: len(script), Script: script}
	file := filepath.Join(opts.WorkDir, fmt.Sprintf("q%d_%d.smt2", os.Getpid(), id))
	defer func() {
		if !opts.Keep {
			os.Remove(file)
			for i := range solvers {
				os.Remove(strings.TrimSuffix(file, ".smt2")+fmt.Sprintf("_%d.smt2", i))
			}
		}
	}()
	if opts.AllSolvers {
		res.Agree = map[string]string{}
		var mu sync.Mutex
		var wg sync.WaitGroup
		// every solver is asked (agreement is checked); once one has answered definitely the others get a grace
		// period of 15 s to agree or disagree, so that one slow solver does not cost the full limit on every obligation
		actx, acancel := context.WithCancel(context.Background())
		defer acancel()
		var once sync.Once
		for i, sd := range solvers {
			wg.Add(1)
			go func(i int, sd solverDef) {
				defer wg.Done()
				st, out, el := runSolverCtx(actx, sd, script, strings.TrimSuffix(file, ".smt2")+fmt.Sprintf("_%d.smt2", i), opts.Timeout, opts.Seed)
				if st == "unsat" || st == "sat" {
					once.Do(func() { time.AfterFunc(15*time.Second, acancel) })
				}
				mu.Lock()
				defer mu.Unlock()
				res.Agree[sd.name] = st
				if st == "unsat" && res.Status != "discharged" {
					res.Status, res.Solver, res.Secs = "discharged", sd.name, el
				}
				if st == "sat" && res.Status == "undecided" {
					res.Status, res.Solver, res.Secs, res.Output = "refuted", sd.name, el, out
				}
				if res.Status == "undecided" {
					res.Output += sd.name + ": " + firstLines(out, 3) + "\n"
					res.Secs += el
				}
			}(i, sd)
		}
		wg.Wait()
		return res
	}
	// quick: a very short z3-new attempt (most obligations take milliseconds), then a portfolio in parallel --
	// z3-new under two seeds, z3 4.8.12 and cvc5 -- where the first definite answer wins and stops the others.
	st, out, el := runSolver(solvers[0], script, file, 2*time.Second, opts.Seed)
	total := el
	if st == "unsat" {
		res.Status, res.Solver, res.Secs = "discharged", solvers[0].name, el
		return res
	}
	if st == "sat" {
		res.Status, res.Solver, res.Secs, res.Output = "refuted", solvers[0].name, el, out
		return res
	}
	res.Output = solvers[0].name + ": " + firstLines(out, 3) + "\n"
	if st == "error" && strings.Contains(out, "(error") {
		res.Status = "error"
		return res
	}
	type r struct {
		st, out, name string
		el            float64
	}
	// at most four portfolios (sixteen solver processes) at a time: wall-clock limits mean little on an overloaded machine
	portSem <- struct{}{}
	defer func() { <-portSem }()
	ctx, cancel := context.WithCancel(context.Background())
	defer cancel()
	type att struct {
		sd   int
		seed int
	}
	atts := []att{{0, opts.Seed}, {0, opts.Seed + 17}, {1, opts.Seed}, {2, opts.Seed}}
	ch := make(chan r, len(atts))
	for k, a := range atts {
		go func(k int, a att) {
			s, o, e := runSolverCtx(ctx, solvers[a.sd], script, strings.TrimSuffix(file, ".smt2")+fmt.Sprintf("_%d.smt2", k), opts.Timeout, a.seed)
			ch <- r{s, o, solvers[a.sd].name, e}
		}(k, a)
	}
	defer func() {
		for k := range atts {
			os.Remove(strings.TrimSuffix(file, ".smt2")+fmt.Sprintf("_%d.smt2", k))
		}
	}()
	for k := 0; k < len(atts); k++ {
		x := <-ch
		if x.st == "unsat" {
			res.Status, res.Solver, res.Secs = "discharged", x.name, total+x.el
			return res
		}
		if x.st == "sat" && res.Status == "undecided" {
			res.Status, res.Solver, res.Secs, res.Output = "refuted", x.name, total+x.el, x.out
			return res
		}
		res.Output += x.name + ": " + firstLines(x.out, 3) + "\n"
		if x.el > res.Secs {
			res.Secs = x.el
		}
	}
	res.Secs += total
	return res
}

func firstLines(s string, n int) string {
	ls := strings.Split(strings.TrimSpace(s), "\n")
	if len(ls) > n {
		ls = ls[:n]
	}
	return strings.Join(ls, " | ")
}

// coverCheck: the conjunction of all assumptions up to the exit together with "some return is reached"
// must not be unsat (vacuity guard). Returns "sat", "unknown" (fine) or "unsat" (vacuous).
func coverCheck(fr *FuncResult, opts SolveOpts, id int) (string, float64) {
	if fr.Cover == "" {
		return "none", 0
	}
	// E-matching only: a contradiction among the assumptions shows up as unsat quickly, anything else is fine
	// default solver options: the same search that discharges obligations must not be able to refute the
	// assumptions (an inconsistent axiom would otherwise make every obligation pass)
	script := buildScriptX(fr, fr.CoverIdx, fr.Cover, "", true)
	file := filepath.Join(opts.WorkDir, fmt.Sprintf("cover%d_%d.smt2", os.Getpid(), id))
	defer os.Remove(file)
	st, _, el := runSolver(solvers[0], script, file, 3*time.Second, opts.Seed)
	return st, el
}

// stripIxAlt replaces every "(ixalt X)" by true: the re-indexed duplicate of a quantified formula is only
// useful as a hypothesis.
func stripIxAlt(t string) string {
	for {
		k := strings.Index(t, "(ixalt ")
		if k < 0 {
			return t
		}
		_, end := sexprAt(t, k)
		if end < 0 {
			return t
		}
		t = t[:k] + "true" + t[end:]
	}
}

package main

import (
	"fmt"
	"go/token"
	"sort"
	"strings"

	"golang.org/x/tools/go/ssa"
)

// FuncResult: everything generated for one function under contract.
type FuncResult struct {
	Key      string
	Spec     *FuncSpec
	Decls    []string
	Facts    []Fact
	Errs     []string
	Warns    []string
	Assumes  []string
	Externs  []string
	Used     []string
	Inlined  []string
	CoverIdx int    // number of facts that precede the reachability cover query
	Cover    string // term that must be satisfiable (some return reachable)
	Pos      token.Pos
	Conc     bool
}

func (w *World) genFunction(key string, conc bool) (*FuncResult, error) {
	fn := w.Funcs[key]
	spec := w.Contracts.Funcs[key]
	if fn == nil {
		return nil, fmt.Errorf("no function %s in the module", key)
	}
	if fn.Blocks == nil {
		return nil, fmt.Errorf("function %s has no body", key)
	}
	// pass 1: discover which components each loop writes
	d := newVC(w, fn, spec)
	d.discover = true
	d.conc = conc
	dex := d.setupAndRun()
	mods := map[*ssa.BasicBlock]map[string]bool{}
	for _, l := range dex.loops {
		m := map[string]bool{}
		for b := range l.Blocks {
			for k := range dex.writes[b] {
				m[k] = true
			}
		}
		mods[l.Header] = m
	}
	// pass 2
	vc := newVC(w, fn, spec)
	vc.conc = conc
	vc.mods = mods
	for k, s := range d.compSort {
		vc.compSort[k] = s
	}
	// sorts met during discovery are declared up front (components may be havocked before their first use)
	vc.sortDecls = append([]string{}, d.sortDecls...)
	for k := range d.declared {
		if strings.HasPrefix(k, "sort:") {
			vc.declared[k] = true
		}
	}
	ex := vc.setupAndRun()
	vc.finish(ex)
	res := &FuncResult{Key: key, Spec: spec, Decls: append(append([]string{}, vc.sortDecls...), vc.decls...), Facts: vc.facts, Errs: vc.errs, Warns: vc.warns, Pos: fn.Pos(), Conc: conc}
	for a := range vc.assumptions {
		res.Assumes = append(res.Assumes, a)
	}
	for a := range vc.externs {
		res.Externs = append(res.Externs, a)
	}
	for a := range vc.usedSpecs {
		res.Used = append(res.Used, a)
	}
	for a := range vc.inlined {
		res.Inlined = append(res.Inlined, a)
	}
	sort.Strings(res.Assumes)
	sort.Strings(res.Externs)
	sort.Strings(res.Used)
	sort.Strings(res.Inlined)
	res.Cover = vc.cover
	res.CoverIdx = vc.coverIdx
	return res, nil
}

func (vc *VC) setupAndRun() *Exec {
	ex := vc.newExec(vc.fn, nil, nil)
	for _, l := range ex.loops {
		if vc.mods != nil {
			l.Mod = vc.mods[l.Header]
		}
		if l.Mod == nil {
			l.Mod = map[string]bool{}
		}
	}
	st := newState()
	ex.curState = st
	ex.entry = st
	// initial facts about memory
	al := ex.get(st, "alloc", "(Array Int Bool)")
	vc.assume(sNot(sSel(al, "0")))
	vc.assume("(>= " + ex.get(st, "LOGN", "Int") + " 0)")
	// parameters
	for _, p := range vc.fn.Params {
		n := "p_" + sanitize(p.Name())
		vc.declareOnce("param:"+n, fmt.Sprintf("(declare-const %s %s)", n, ex.sortOfT(p.Type())))
		ex.vals[p] = Val{T: n}
		vc.assume(ex.typeInv(n, p.Type(), st))
	}
	for i, fv := range vc.fn.FreeVars {
		n := fmt.Sprintf("fv%d_%s", i, sanitize(fv.Name()))
		vc.declareOnce("param:"+n, fmt.Sprintf("(declare-const %s %s)", n, ex.sortOfT(fv.Type())))
		ex.vals[fv] = Val{T: n}
		vc.assume(ex.typeInv(n, fv.Type(), st))
		vc.assume("(not (= " + n + " 0))")
	}
	if vc.fn.Signature.Recv() != nil && len(vc.fn.Params) > 0 && ex.knownNonNil(vc.fn.Params[0]) {
		if ex.sortOfT(vc.fn.Params[0].Type()) == "Int" {
			vc.assume("(not (= " + ex.vals[vc.fn.Params[0]].T + " 0))")
			vc.assumptions["method receivers are non-nil"] = true
		}
	}
	spec := vc.spec
	if spec != nil {
		ev := ex.newEval(st, st)
		for _, g := range spec.Ghosts {
			vc.ghostSort[g.Name] = ev.resolveType(g.Type)
			vc.comp("G:"+g.Name, vc.vtSort(vc.ghostSort[g.Name]))
		}
		ex.ghostArgs = map[string]TV{}
		for _, g := range spec.GhostParam {
			vt := ev.resolveType(g.Type)
			n := "gp_" + sanitize(g.Name)
			vc.declareOnce("param:"+n, fmt.Sprintf("(declare-const %s %s)", n, vc.vtSort(vt)))
			ex.ghostArgs[g.Name] = TV{T: n, Ty: vt}
		}
		ex.bindParams(ev)
		for _, g := range spec.Ghosts {
			if g.Init != nil {
				iv := ev.rval(ev.eval(g.Init))
				ex.set(st, "G:"+g.Name, vc.vtSort(vc.ghostSort[g.Name]), iv.T)
			}
		}
		for _, ax := range vc.w.Contracts.axiomsFor(spec) {
			vc.assume(ev.evalBool(ax.Body))
			vc.axiomsUsed = append(vc.axiomsUsed, ax.Name)
		}
		for _, r := range spec.Requires {
			if modeSkip(r, vc.conc) {
				continue
			}
			vc.assume(ev.evalBool(r.Expr))
		}
		for _, ab := range spec.AssumeBody {
			vc.assume(ev.evalBool(ab.Expr))
			vc.assumptions[fmt.Sprintf("the body of %s is verified only for inputs with %s; for the others its contract is ASSUMED, not proved", vc.key, strings.TrimSpace(ab.Text))] = true
		}
		for _, f := range spec.Findings {
			// known finding: the contract is proved outside the carve-out
			vc.assume(sNot(ev.evalBool(f.Expr)))
		}
		for k, lm := range spec.Lemmas {
			ex.proveLemma(fmt.Sprintf("lemma[%d]", k+1), lm, func() *Eval {
				e := ex.newEval(st, st)
				ex.bindParams(e)
				return e
			}, "true")
		}
		if len(spec.PanicsWhen) > 0 {
			var ps []string
			for _, p := range spec.PanicsWhen {
				ps = append(ps, ev.evalBool(p.Expr))
			}
			ex.panicsWhen = vc.define("panics_when", "Bool", sOr(ps...))
		}
		ex.lockEntry(spec, ev)
	}
	ex.run("true", st)
	return ex
}

// finish: exit obligations (ensures, frame, documented panic completeness) and the reachability cover.
func (vc *VC) finish(ex *Exec) {
	if vc.discover {
		return
	}
	spec := vc.spec
	if len(ex.rets) == 0 {
		vc.cover = ""
		if ex.panicsWhen == "" {
			vc.errorf("function %s has no reachable return", vc.key)
		}
		return
	}
	// merged exit
	var rs []string
	for _, r := range ex.rets {
		rs = append(rs, r.reach)
	}
	exitReach := vc.define("exit_reach", "Bool", sOr(rs...))
	vc.cover = exitReach
	vc.coverIdx = len(vc.facts)
	st := newState()
	if len(ex.rets) == 1 {
		st = ex.rets[0].st
	} else {
		keys := map[string]bool{}
		for _, r := range ex.rets {
			for k := range r.st.m {
				keys[k] = true
			}
		}
		for _, k := range sortedKeys(keys) {
			srt := vc.compSort[k]
			term := ex.get(ex.rets[len(ex.rets)-1].st, k, srt)
			for i := len(ex.rets) - 2; i >= 0; i-- {
				term = sIte(ex.rets[i].reach, ex.get(ex.rets[i].st, k, srt), term)
			}
			st.m[k] = vc.define("x_"+k, srt, term)
		}
		var olds []*State
		var conds []string
		for _, r := range ex.rets {
			olds = append(olds, r.st.old)
			conds = append(conds, r.reach)
		}
		st.old = ex.mergeOlds(olds, conds)
	}
	ex.curState = st
	ex.curReach = exitReach
	nres := vc.fn.Signature.Results().Len()
	var results []TV
	for k := 0; k < nres; k++ {
		rt := ex.typ(vc.fn.Signature.Results().At(k).Type())
		term := ex.rets[len(ex.rets)-1].vals[k].T
		for i := len(ex.rets) - 2; i >= 0; i-- {
			term = sIte(ex.rets[i].reach, ex.rets[i].vals[k].T, term)
		}
		n := vc.define("result_"+fmt.Sprint(k), vc.sortOf(rt), term)
		results = append(results, TV{T: n, Ty: goVT(rt)})
	}
	if ex.panicsWhen != "" {
		vc.oblige("panic.documented.complete", "", vc.fn.Pos(), exitReach, sNot(ex.panicsWhen), "the function returns normally only outside its documented panic condition")
		vc.assume(sImp(exitReach, sNot(ex.panicsWhen)))
	}
	if spec == nil {
		return
	}
	mkEval := func() *Eval {
		ev := ex.newEval(st, ex.entry)
		ex.bindParams(ev)
		if len(ex.rets) == 1 && ex.rets[0].block != nil {
			// a single return: Go locals can be named in ensures / exit-ghost clauses, with their values there
			ev.point = &progPoint{block: ex.rets[0].block, idx: len(ex.rets[0].block.Instrs) - 1}
			ev.exitCtx = true
		}
		for k, r := range results {
			nm := vc.fn.Signature.Results().At(k).Name()
			if nm != "" && nm != "_" {
				ev.vars[nm] = r
			}
			ev.vars[fmt.Sprintf("result%d", k)] = r
			if k == 0 {
				ev.vars["result"] = r
			}
		}
		return ev
	}
	// exit ghost updates
	for _, g := range spec.ExitGhost {
		ex.applyGhostUpdateEval(g, st, mkEval())
	}
	// frame: every heap component written anywhere in the function
	for _, key := range sortedKeys(ex.allWrites) {
		if vc.conc {
			break // frames are a sequential (C16) matter; in concurrent mode old() is the state at the last acquisition
		}
		if f := ex.frameFormula(key, st); f != "" {
			vc.oblige(fmt.Sprintf("frame[%s]", shortKey(key)), "frame", vc.fn.Pos(), exitReach, f, "nothing outside the modifies clause changed in "+key)
		}
	}
	for k, a := range spec.Asserts {
		t := mkEval().evalBool(a.Expr)
		vc.oblige(fmt.Sprintf("assert[%d]", k+1), a.Tag, vc.fn.Pos(), exitReach, t, "hint: "+a.Text)
	}
	for k, e := range spec.Ensures {
		if modeSkip(e, vc.conc) || (vc.conc && spec.Opts["multi-section"] != "" && (e.Tag == "" || e.Tag == "seq")) {
			continue
		}
		t := mkEval().evalBool(e.Expr)
		tag := e.Tag
		if tag == "conc" || tag == "seq" {
			tag = ""
		}
		if vc.conc && tag == "" {
			tag = "lp" // atomic specification between the last acquisition and the exit: linearizability (C02)
		}
		vc.oblige(fmt.Sprintf("ensures[%d]", k+1), tag, vc.fn.Pos(), exitReach, t, "postcondition: "+e.Text)
	}
	// refinement: this method implements an interface method whose contract is written over ghost fields; with the
	// ghost fields read through the given abstraction of the concrete state, the interface contract's postconditions
	// are obligations here (so callers that assume the interface contract may be handed this implementation)
	for _, rf := range spec.Refines {
		rtag := ""
		if strings.HasPrefix(rf, "[") {
			if k := strings.Index(rf, "]"); k > 0 {
				rtag = rf[1:k]
				rf = strings.TrimSpace(rf[k+1:])
			}
		}
		parts := strings.SplitN(rf, " with ", 2)
		ikey := strings.TrimSpace(parts[0])
		ispec := vc.w.Contracts.Funcs[ikey]
		if ispec == nil || len(parts) != 2 {
			vc.errorf("refines: no interface contract %q (syntax: refines <key> with gf(self) := expr; ...)", ikey)
			continue
		}
		abs := map[string]Expr{}
		for _, a := range splitTop(parts[1], ';') {
			a = strings.TrimSpace(a)
			if a == "" {
				continue
			}
			k := strings.Index(a, ":=")
			lp := strings.Index(a, "(")
			if k < 0 || lp < 0 || lp > k {
				vc.errorf("refines: cannot parse abstraction %q", a)
				continue
			}
			// `new-state expression @old old-state expression` when the two states are described by different ghost views
			rhs := strings.SplitN(a[k+2:], "@old", 2)
			e, err := parseExpr(strings.TrimSpace(rhs[0]))
			if err != nil {
				vc.errorf("refines: %v", err)
				continue
			}
			abs[strings.TrimSpace(a[:lp])] = e
			if len(rhs) == 2 {
				eo, err := parseExpr(strings.TrimSpace(rhs[1]))
				if err != nil {
					vc.errorf("refines: %v", err)
					continue
				}
				abs["@old:"+strings.TrimSpace(a[:lp])] = eo
			}
		}
		if vc.conc {
			continue
		}
		tag := rtag
		for k, e := range ispec.Ensures {
			ev := mkEval()
			ev.gfAbs = abs
			if len(vc.fn.Params) > 0 {
				ev.vars["self"] = ev.params[vc.fn.Params[0].Name()]
				for i, p := range vc.fn.Params[1:] {
					ev.vars[fmt.Sprintf("arg%d", i)] = ev.params[p.Name()]
				}
			}
			t := ev.evalBool(e.Expr)
			vc.oblige(fmt.Sprintf("refines[%s].ensures[%d]", ikey, k+1), tag, vc.fn.Pos(), exitReach, t, "interface contract of "+ikey+" under the abstraction: "+e.Text)
		}
	}
	ex.lockExit(spec, st, exitReach)
}

func (ex *Exec) applyGhostUpdateEval(g *Clause, st *State, ev *Eval) {
	// exit-ghost: same syntax as loop ghost updates, names resolved with the exit evaluator
	text := g.Text
	eq := topLevelAssign(text)
	if eq < 0 {
		ex.vc.errorf("%s: exit-ghost needs 'name = rhs'", g.Src)
		return
	}
	name := strings.TrimSpace(text[:eq])
	rhsE, err := parseExpr(text[eq+1:])
	if err != nil {
		ex.vc.errorf("%s: %v", g.Src, err)
		return
	}
	gt, ok := ex.vc.ghostSort[name]
	if !ok {
		ex.vc.errorf("%s: unknown ghost %s", g.Src, name)
		return
	}
	rhs := ev.rval(ev.eval(rhsE))
	ex.set(st, "G:"+name, ex.vc.vtSort(gt), rhs.T)
}

// proveLemma: `lemma forall v int, w... :: P` is proved by strong induction on its first (integer) variable:
// for fresh v0, w0 the goal P(v0,w0) is proved under the hypothesis forall v, w :: 0 <= v && v < v0 ==> P(v,w).
// (For v0 < 0 the hypothesis is vacuous, so those instances are proved outright; a minimal counterexample
// v0 >= 0 is therefore impossible.) Afterwards the lemma is a fact. mk returns a fresh evaluator for the state
// the lemma speaks about (function entry, or a loop cut after the invariants have been assumed).
func (ex *Exec) proveLemma(name string, lm *Clause, mk func() *Eval, guard string) {
	q, ok := lm.Expr.(EQuant)
	if !ok || !q.Forall || len(q.Vars) == 0 {
		ex.vc.errorf("%s: lemma must be a forall formula", lm.Src)
		return
	}
	ev := mk()
	vt := ev.resolveType(q.Vars[0].Type)
	if ex.vc.vtSort(vt) != "Int" {
		ex.vc.errorf("%s: the induction variable of a lemma must be an integer", lm.Src)
		return
	}
	sub := mk()
	k0name := "$lemma_k0"
	for i, v := range q.Vars {
		t := ev.resolveType(v.Type)
		c := ex.vc.fresh("lem_"+sanitize(v.Name), ex.vc.vtSort(t))
		sub.vars[v.Name] = TV{T: c, Ty: t}
		if i == 0 {
			ev.vars[k0name] = TV{T: c, Ty: t}
		}
	}
	ih := EQuant{Forall: true, Vars: q.Vars, Body: EBin{"==>", EBin{"&&", EBin{"<=", EInt{"0"}, EIdent{q.Vars[0].Name}}, EBin{"<", EIdent{q.Vars[0].Name}, EIdent{k0name}}}, q.Body}}
	ex.vc.assume(sImp(guard, ev.evalBool(ih)))
	goal := sub.evalBool(q.Body)
	ex.vc.oblige(name, lm.Tag, ex.fn.Pos(), guard, goal, "lemma (strong induction on "+q.Vars[0].Name+"): "+lm.Text)
	ex.vc.assume(sImp(guard, mk().evalBool(lm.Expr)))
}

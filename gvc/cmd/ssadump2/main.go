package main

import (
	"fmt"
	"os"

	"golang.org/x/tools/go/packages"
	"golang.org/x/tools/go/ssa"
	"golang.org/x/tools/go/ssa/ssautil"
)

func main() {
	cfg := &packages.Config{Mode: packages.LoadAllSyntax, Dir: "/repo", BuildFlags: []string{"-tags=verif"}}
	pkgs, err := packages.Load(cfg, "./...")
	if err != nil {
		panic(err)
	}
	prog, spkgs := ssautil.AllPackages(pkgs, ssa.GlobalDebug)
	prog.Build()
	want := map[string]bool{}
	for _, a := range os.Args[1:] {
		want[a] = true
	}
	for _, sp := range spkgs {
		if sp == nil {
			continue
		}
		for _, m := range sp.Members {
			if f, ok := m.(*ssa.Function); ok {
				dump(f, want)
			}
			if t, ok := m.(*ssa.Type); ok {
				ms := prog.MethodSets.MethodSet(t.Type())
				_ = ms
			}
		}
	}
	// methods
	for f := range ssautil.AllFunctions(prog) {
		if f.Pkg == nil {
			continue
		}
		if f.Signature.Recv() != nil || f.Parent() != nil {
			dump(f, want)
		}
	}
}

func dump(f *ssa.Function, want map[string]bool) {
	if want[f.Name()] || want[f.String()] {
		fmt.Println("=====", f.String(), "origin:", f.Origin(), "typeparams:", f.TypeParams(), "targs:", f.TypeArgs())
		f.WriteTo(os.Stdout)
	}
}

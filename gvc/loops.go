package main

import (
	"fmt"
	"go/types"
	"sort"
	"strings"

	"golang.org/x/tools/go/ssa"
)

// scratchHeader recomputes the values of the (non-phi) instructions of a loop header under a given
// binding of the header phis and a given state, without emitting obligations or assumptions. The
// result is an overlay that contract name resolution uses at the loop cut.
func (ex *Exec) scratchHeader(l *Loop, phiVals map[*ssa.Phi]Val, st *State) map[ssa.Value]Val {
	overlay := map[ssa.Value]Val{}
	for p, v := range phiVals {
		overlay[p] = v
	}
	savedVals := map[ssa.Value]*Val{}
	b := l.Header
	for _, ins := range b.Instrs {
		if v, ok := ins.(ssa.Value); ok {
			if old, have := ex.vals[v]; have {
				o := old
				savedVals[v] = &o
			} else {
				savedVals[v] = nil
			}
		}
	}
	savedOverlay, savedState, savedReach, savedScratch := ex.loopPhiOverlay, ex.curState, ex.curReach, ex.vc.scratch
	savedDefers, savedRets := ex.defers, ex.rets
	ex.loopPhiOverlay = overlay
	ex.curState = st.clone()
	ex.vc.scratch = true
	for _, ins := range b.Instrs {
		switch ins.(type) {
		case *ssa.Phi, *ssa.If, *ssa.Jump, *ssa.Return, *ssa.Panic, *ssa.DebugRef:
			continue
		}
		// temporarily remove any overlay entry so instr() computes afresh
		if v, ok := ins.(ssa.Value); ok {
			delete(overlay, v)
			delete(ex.vals, v)
		}
		ex.instr(ins)
		if v, ok := ins.(ssa.Value); ok {
			if nv, have := ex.vals[v]; have {
				overlay[v] = nv
			}
		}
	}
	for v, old := range savedVals {
		if old == nil {
			delete(ex.vals, v)
		} else {
			ex.vals[v] = *old
		}
	}
	ex.loopPhiOverlay, ex.curState, ex.curReach, ex.vc.scratch = savedOverlay, savedState, savedReach, savedScratch
	ex.defers, ex.rets = savedDefers, savedRets
	return overlay
}

func (ex *Exec) loopSpec(l *Loop) *LoopSpec {
	sp := ex.spec
	if ex.parent == nil {
		sp = ex.vc.spec
	}
	if sp == nil {
		return nil
	}
	return sp.Loops[l.Ordinal]
}

// evalAtHeader evaluates expression e at the cut of loop l with the given overlay/state.
func (ex *Exec) evalAtHeader(l *Loop, overlay map[ssa.Value]Val, st *State, e Expr) string {
	saved := ex.loopPhiOverlay
	ex.loopPhiOverlay = overlay
	defer func() { ex.loopPhiOverlay = saved }()
	ev := ex.newEval(st, ex.entry)
	ex.bindParams(ev)
	ev.point = &progPoint{block: l.Header, idx: len(l.Header.Instrs)}
	ev.loopOld = ex.loopEntry[l]
	return ev.evalBool(e)
}

func heapComp(key string) bool {
	return strings.HasPrefix(key, "F:") || strings.HasPrefix(key, "E:") || strings.HasPrefix(key, "P:") ||
		strings.HasPrefix(key, "MD:") || strings.HasPrefix(key, "MV:") || strings.HasPrefix(key, "ML:")
}

func (ex *Exec) loopHead(l *Loop, b *ssa.BasicBlock, edges []edge, reachIn string, st *State, phiIn map[*ssa.Phi]Val) {
	vc := ex.vc
	spec := ex.loopSpec(l)
	if spec == nil && !vc.discover && (ex.parent == nil && vc.spec != nil) {
		vc.errorf("loop %d of %s has no invariant block", l.Ordinal, vc.key)
	}
	if ex.loopEntry == nil {
		ex.loopEntry = map[*Loop]*State{}
	}
	ex.loopEntry[l] = st.clone()
	// 1. invariants on entry
	if spec != nil && !vc.discover {
		overlay := ex.scratchHeader(l, phiIn, st)
		for k, inv := range spec.Invariants {
			if modeSkip(inv, vc.conc) {
				continue
			}
			t := ex.evalAtHeader(l, overlay, st, inv.Expr)
			vc.oblige(fmt.Sprintf("loop%d.inv[%d].init", l.Ordinal, k+1), inv.Tag, b.Instrs[0].Pos(), reachIn, t, "invariant holds on entry: "+inv.Text)
		}
	}
	if ex.parent == nil && !vc.discover && (!vc.conc || !l.Mod["SECTION"]) {
		for _, key := range sortedKeys(l.Mod) {
			if f := ex.frameFormula(key, st); f != "" {
				vc.oblige(fmt.Sprintf("loop%d.frame.init[%s]", l.Ordinal, shortKey(key)), "frame", b.Instrs[0].Pos(), reachIn, f, "frame holds on loop entry for "+key)
			}
		}
	}
	// 2. havoc
	reach := vc.fresh(ex.pfx+"reach_"+fmt.Sprint(b.Index), "Bool")
	vc.assume(sEq(reach, reachIn))
	ex.reach[b] = reach
	nst := st.clone()
	for _, key := range sortedKeys(l.Mod) {
		srt := vc.compSort[key]
		if srt == "" {
			continue
		}
		h := vc.fresh("lh_"+key, srt)
		nst.m[key] = h
		if key != "alloc" {
			defer func(key, srt, h string) {
				if f := memInv(key, srt, h, ex.get(nst, "alloc", "(Array Int Bool)")); f != "" {
					vc.assume(f)
				}
			}(key, srt, h)
		}
		if key == "alloc" {
			vc.assume(fmt.Sprintf("(forall ((r Int)) (! (=> (select %s r) (select %s r)) :pattern ((select %s r))))", ex.get(st, "alloc", srt), h, h))
			vc.assume(sNot(sSel(h, "0")))
		}
	}
	phiNew := map[*ssa.Phi]Val{}
	for _, ins := range b.Instrs {
		phi, ok := ins.(*ssa.Phi)
		if !ok {
			break
		}
		// a phi all of whose incoming values are the same needs no havoc
		n := vc.fresh(ex.pfx+phi.Name()+"_"+sanitize(phi.Comment), ex.sortOfT(phi.Type()))
		phiNew[phi] = Val{T: n}
		ex.vals[phi] = Val{T: n}
		vc.assume(sImp(reach, ex.typeInv(n, phi.Type(), nst)))
		if isRangeIndexPhi(phi) {
			// the compiler-generated index of a range loop starts at -1 and only ever grows by one
			vc.assume(sImp(reach, "(>= "+n+" (- 1))"))
			// ... and is compared against a length computed before the loop: index+1 <= max(len,0)
			if lim := rangeLimit(phi, l); lim != nil {
				lt := ex.val(lim).T
				vc.assume(sImp(reach, sOr("(= "+n+" (- 1))", "(< "+n+" "+lt+")")))
			}
		}
	}
	// 3. assume invariants
	if spec != nil && !vc.discover {
		overlay := ex.scratchHeader(l, phiNew, nst)
		for _, inv := range spec.Invariants {
			if modeSkip(inv, vc.conc) {
				continue
			}
			t := ex.evalAtHeader(l, overlay, nst, inv.Expr)
			vc.assume(sImp(reach, t))
		}
	}
	if ex.parent == nil && !vc.discover && (!vc.conc || !l.Mod["SECTION"]) {
		for _, key := range sortedKeys(l.Mod) {
			if f := ex.frameFormula(key, nst); f != "" {
				vc.assume(sImp(reach, f))
			}
		}
	}
	// locks: every iteration leaves the lock state as the loop found it
	if l.Mod["HELD"] && !vc.discover {
		vc.assume(sImp(reach, sEq(ex.get(nst, "HELD", "(Array Int Int)"), ex.get(st, "HELD", "(Array Int Int)"))))
	}
	// lemmas at the cut (state after the havoc, invariants assumed)
	if spec != nil && !vc.discover {
		overlay := ex.scratchHeader(l, phiNew, nst)
		for k, lm := range spec.Lemmas {
			ex.proveLemma(fmt.Sprintf("loop%d.lemma[%d]", l.Ordinal, k+1), lm, func() *Eval {
				ev := ex.newEval(nst, ex.entry)
				ex.bindParams(ev)
				ev.point = &progPoint{block: l.Header, idx: len(l.Header.Instrs)}
				ev.loopOld = ex.loopEntry[l]
				ev.overlay = overlay
				return ev
			}, reach)
		}
	}
	ex.curState = nst
}

func (ex *Exec) loopBack(l *Loop, from, header *ssa.BasicBlock) {
	vc := ex.vc
	spec := ex.loopSpec(l)
	if vc.discover {
		// record which ghost variables the loop's ghost updates write (they must be havocked at the head)
		if spec != nil {
			for _, g := range spec.Ghost {
				text := g.Text
				if k := strings.LastIndex(text, " when "); k >= 0 {
					text = text[:k]
				}
				if eq := topLevelAssign(text); eq >= 0 {
					name := strings.TrimSpace(text[:eq])
					if k := strings.Index(name, "["); k >= 0 {
						name = name[:k]
					}
					if gt, ok := vc.ghostSort[name]; ok {
						vc.comp("G:"+name, vc.vtSort(gt))
						// attributed to the header of *this* loop: a back-edge that leaves an inner loop must not make
						// the inner loop havoc the ghost state of the outer one
						ex.curBlock = header
						ex.noteWrite("G:" + name)
					}
				}
			}
		}
		return
	}
	guard := sAnd(ex.outReach[from], edgeCond(ex, from, header))
	idx := -1
	for i, p := range header.Preds {
		if p == from {
			idx = i
		}
	}
	phiVals := map[*ssa.Phi]Val{}
	for _, ins := range header.Instrs {
		phi, ok := ins.(*ssa.Phi)
		if !ok {
			break
		}
		phiVals[phi] = ex.val(phi.Edges[idx])
	}
	st := ex.out[from].clone()
	if spec != nil {
		// ghost updates, evaluated at the end of the body on this path
		ex.curBlock = from
		ex.curState = st
		ex.ghostLoop = l
		for _, g := range spec.Ghost {
			ex.applyGhostUpdate(g, st, &progPoint{block: from, idx: len(from.Instrs)}, guard)
		}
		ex.ghostLoop = nil
		overlay := ex.scratchHeader(l, phiVals, st)
		pos := header.Instrs[0].Pos()
		for k, inv := range spec.Invariants {
			if modeSkip(inv, vc.conc) {
				continue
			}
			t := ex.evalAtHeader(l, overlay, st, inv.Expr)
			name := fmt.Sprintf("loop%d.inv[%d].preserved", l.Ordinal, k+1)
			if len(backEdgesOf(header)) > 1 {
				name = fmt.Sprintf("loop%d.inv[%d].preserved@b%d", l.Ordinal, k+1, backOrdinal(header, from))
			}
			vc.oblige(name, inv.Tag, pos, guard, t, "invariant preserved: "+inv.Text)
		}
	}
	if l.Mod["HELD"] && ex.loopEntry[l] != nil {
		vc.oblige(fmt.Sprintf("loop%d.lock.balanced", l.Ordinal), "lock", header.Instrs[0].Pos(), guard,
			sEq(ex.get(st, "HELD", "(Array Int Int)"), ex.get(ex.loopEntry[l], "HELD", "(Array Int Int)")), "each iteration releases exactly the locks it takes")
	}
	if ex.parent == nil && (!vc.conc || !l.Mod["SECTION"]) {
		for _, key := range sortedKeys(l.Mod) {
			if f := ex.frameFormula(key, st); f != "" {
				name := fmt.Sprintf("loop%d.frame.preserved[%s]", l.Ordinal, shortKey(key))
				if len(backEdgesOf(header)) > 1 {
					name = fmt.Sprintf("loop%d.frame.preserved@b%d[%s]", l.Ordinal, backOrdinal(header, from), shortKey(key))
				}
				vc.oblige(name, "frame", header.Instrs[0].Pos(), guard, f, "frame preserved by loop body for "+key)
			}
		}
	}
}

func isRangeIndexPhi(phi *ssa.Phi) bool {
	if phi.Comment != "rangeindex" {
		return false
	}
	for _, e := range phi.Edges {
		switch x := e.(type) {
		case *ssa.Const:
			if x.Value == nil || x.Value.ExactString() != "-1" {
				return false
			}
		case *ssa.BinOp:
			c, ok := x.Y.(*ssa.Const)
			if x.X != ssa.Value(phi) || !ok || c.Value == nil || c.Value.ExactString() != "1" || x.Op.String() != "+" {
				return false
			}
		default:
			return false
		}
	}
	return true
}

// rangeLimit: for the compiler-generated pattern  t = phi+1; if t < lim  with lim defined outside the loop.
func rangeLimit(phi *ssa.Phi, l *Loop) ssa.Value {
	for _, ins := range l.Header.Instrs {
		cmp, ok := ins.(*ssa.BinOp)
		if !ok || cmp.Op.String() != "<" {
			continue
		}
		inc, ok := cmp.X.(*ssa.BinOp)
		if !ok || inc.X != ssa.Value(phi) || inc.Op.String() != "+" {
			continue
		}
		if li, ok := cmp.Y.(ssa.Instruction); ok && li.Block() != nil && l.Blocks[li.Block()] {
			continue
		}
		// the header must branch on this comparison
		if ifi, ok := l.Header.Instrs[len(l.Header.Instrs)-1].(*ssa.If); ok && ifi.Cond == ssa.Value(cmp) {
			return cmp.Y
		}
	}
	return nil
}

func backEdgesOf(h *ssa.BasicBlock) []*ssa.BasicBlock {
	var out []*ssa.BasicBlock
	for _, p := range h.Preds {
		if h.Dominates(p) {
			out = append(out, p)
		}
	}
	return out
}

func backOrdinal(h, from *ssa.BasicBlock) int {
	for i, p := range backEdgesOf(h) {
		if p == from {
			return i + 1
		}
	}
	return 0
}

func sortedKeys(m map[string]bool) []string {
	var ks []string
	for k := range m {
		ks = append(ks, k)
	}
	sort.Strings(ks)
	return ks
}

func shortKey(k string) string {
	if i := strings.Index(k, "|"); i >= 0 {
		k = k[:i]
	}
	return strings.NewReplacer("(", "", ")", "", " ", "_").Replace(k)
}

// applyGhostUpdate: "lhs = rhs [when cond]" ; lhs is name or name[idx]...
func (ex *Exec) applyGhostUpdate(g *Clause, st *State, pt *progPoint, guard string) {
	ex.applyGhostUpdateX(g, st, pt, guard, nil)
}

func (ex *Exec) applyGhostUpdateX(g *Clause, st *State, pt *progPoint, guard string, extra map[string]TV) {
	text := g.Text
	cond := ""
	if k := strings.LastIndex(text, " when "); k >= 0 {
		cond = text[k+6:]
		text = text[:k]
	}
	eq := topLevelAssign(text)
	if eq < 0 {
		ex.vc.errorf("%s: ghost update needs 'lhs = rhs'", g.Src)
		return
	}
	lhsE, err1 := parseExpr(text[:eq])
	rhsE, err2 := parseExpr(text[eq+1:])
	if err1 != nil || err2 != nil {
		ex.vc.errorf("%s: cannot parse ghost update: %v %v", g.Src, err1, err2)
		return
	}
	ev := ex.newEval(st, ex.entry)
	ex.bindParams(ev)
	ev.point = pt
	for k, v := range extra {
		ev.vars[k] = v
	}
	nerr := len(ex.vc.errs)
	c := "true"
	if cond != "" {
		ce, err := parseExpr(cond)
		if err != nil {
			ex.vc.errorf("%s: %v", g.Src, err)
			return
		}
		c = ev.evalBool(ce)
	}
	rhs := ev.rval(ev.eval(rhsE))
	// lhs
	var name string
	var idxs []string
	cur := lhsE
	for {
		switch x := cur.(type) {
		case EIdent:
			name = x.Name
		case EIndex:
			idxs = append([]string{ev.rval(ev.eval(x.I)).T}, idxs...)
			cur = x.X
			continue
		default:
			ex.vc.errorf("%s: unsupported ghost lhs", g.Src)
			return
		}
		break
	}
	if len(ex.vc.errs) > nerr {
		// names not available on this path: the update does not apply here (reported as a warning by `gvc func`)
		for _, e := range ex.vc.errs[nerr:] {
			ex.vc.warns = append(ex.vc.warns, fmt.Sprintf("%s: ghost update skipped on one path: %s", g.Src, e))
		}
		ex.vc.errs = ex.vc.errs[:nerr]
		return
	}
	gt, ok := ex.vc.ghostSort[name]
	if !ok {
		ex.vc.errorf("%s: unknown ghost variable %s", g.Src, name)
		return
	}
	srt := ex.vc.vtSort(gt)
	curV := ex.get(st, "G:"+name, srt)
	var nv string
	switch len(idxs) {
	case 0:
		nv = rhs.T
	case 1:
		nv = sSto(curV, idxs[0], rhs.T)
	case 2:
		nv = sSto(curV, idxs[0], sSto(sSel(curV, idxs[0]), idxs[1], rhs.T))
	default:
		ex.vc.errorf("%s: ghost lhs too deep", g.Src)
		return
	}
	ex.set(st, "G:"+name, srt, sIte(c, nv, curV))
}

func topLevelAssign(s string) int {
	depth := 0
	for i := 0; i < len(s); i++ {
		switch s[i] {
		case '(', '[':
			depth++
		case ')', ']':
			depth--
		case '=':
			if depth == 0 {
				if i+1 < len(s) && (s[i+1] == '=' || s[i+1] == '>') {
					i++
					continue
				}
				if i > 0 && (s[i-1] == '=' || s[i-1] == '!' || s[i-1] == '<' || s[i-1] == '>') {
					continue
				}
				return i
			}
		}
	}
	return -1
}

// ---------------------------------------------------------------- frames

// modSet: for a heap component, the references the function may modify (from its modifies clauses),
// as a predicate over the bound variable r; "" if everything may change; "false" if nothing.
func (ex *Exec) modPredicate(key string) string {
	vc := ex.vc
	if vc.spec == nil {
		return "false"
	}
	if vc.modCache == nil {
		vc.modCache = map[string][]modTarget{}
		ev := ex.newEval(ex.entry, ex.entry)
		ex.bindParams(ev)
		for _, m := range vc.spec.Modifies {
			for _, loc := range splitTop(m.Text, ',') {
				if loc == "nothing" || loc == "" || loc == "alloc" || loc == "log" {
					continue
				}
				for _, tg := range ev.modTargets(loc) {
					vc.modCache[tg.key] = append(vc.modCache[tg.key], tg)
				}
			}
		}
	}
	tgs := vc.modCache[key]
	if len(tgs) == 0 {
		return "false"
	}
	var ds []string
	for _, tg := range tgs {
		if tg.all {
			return ""
		}
		ds = append(ds, "(= r "+tg.idx+")")
	}
	return sOr(ds...)
}

// frameFormula: every object allocated at entry and not named by a modifies clause holds its entry value.
func (ex *Exec) frameFormula(key string, st *State) string {
	if !heapComp(key) || ex.vc.spec == nil {
		return ""
	}
	if ex.vc.spec.Opts["noframe"] != "" {
		return ""
	}
	srt := ex.vc.compSort[key]
	now := ex.get(st, key, srt)
	oldSt := ex.entry
	if st.old != nil {
		oldSt = st.old
	}
	was := ex.get(oldSt, key, srt)
	if now == was {
		return ""
	}
	mod := ex.modPredicate(key)
	if mod == "" {
		return ""
	}
	al := ex.get(ex.entry, "alloc", "(Array Int Bool)")
	return fmt.Sprintf("(forall ((r Int)) (! (=> (and (select %s (rootOf r)) (not %s)) (= (select %s r) (select %s r))) :pattern ((select %s r))))", al, mod, now, was, now)
}

var _ = types.Typ

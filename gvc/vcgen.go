package main

import (
	"fmt"
	"go/token"
	"go/types"
	"sort"
	"strings"

	"golang.org/x/tools/go/ssa"
)

// ---------------------------------------------------------------- facts and VC

type Fact struct {
	Oblig bool
	Name  string
	Kind  string
	Term  string
	Pos   token.Pos
	Tag   string // property tag override ("" => function's properties)
	Info  string
	// obligations that may legitimately be affected by a known finding carry the finding guard
}

type VC struct {
	w           *World
	fn          *ssa.Function
	key         string
	spec        *FuncSpec
	decls       []string
	declared    map[string]bool
	facts       []Fact
	ctr         int
	compSort    map[string]string
	errs        []string
	warns       []string
	assumptions map[string]bool
	oblCount    map[string]int
	discover    bool
	conc        bool // concurrent mode (havoc guarded state at lock acquisition)
	usedSpecs   map[string]bool
	inlined     map[string]bool
	externs     map[string]bool
	ghostSort   map[string]VT
	findingGuard string
	scratch      bool
	modCache     map[string][]modTarget
	concreteTags []string
	cover        string
	sortDecls    []string
	axiomsUsed   []string
	coverIdx     int
	mods         map[*ssa.BasicBlock]map[string]bool // loop header -> components written in the loop (from the discovery pass)
	guardTab     map[string]*guardedType
}

func newVC(w *World, fn *ssa.Function, spec *FuncSpec) *VC {
	vc := &VC{w: w, fn: fn, key: funcKey(fn), spec: spec, declared: map[string]bool{}, compSort: map[string]string{},
		assumptions: map[string]bool{}, oblCount: map[string]int{}, usedSpecs: map[string]bool{}, inlined: map[string]bool{},
		externs: map[string]bool{}, ghostSort: map[string]VT{}}
	vc.prelude()
	return vc
}

func (vc *VC) prelude() {
	vc.needSlice()
	vc.decls = append(vc.decls,
		"(declare-fun sub (Int Int) Int)",
		"(declare-fun isSub (Int) Bool)",
		"(declare-fun subOf (Int) Int)",
		"(declare-fun subIdx (Int) Int)",
		"(declare-fun rootOf (Int) Int)",
		"(assert (forall ((x Int) (k Int)) (! (and (isSub (sub x k)) (= (subOf (sub x k)) x) (= (subIdx (sub x k)) k) (= (rootOf (sub x k)) (rootOf x)) (not (= (sub x k) 0))) :pattern ((sub x k)))))",
		"(assert (forall ((x Int)) (! (=> (not (isSub x)) (= (rootOf x) x)) :pattern ((rootOf x)))))",
		"(assert (not (isSub 0)))",
		// element addressing: ix(off,i) = off+i, kept as an uninterpreted symbol so that quantifier patterns over
		// slice elements are not destroyed by arithmetic normalisation
		"(define-fun ixalt ((b Bool)) Bool b)",
		"(declare-fun ix (Int Int) Int)",
		"(assert (forall ((o Int) (i Int)) (! (= (ix o i) (+ o i)) :pattern ((ix o i)))))",
	)
}

func (vc *VC) declareOnce(key, decl string) {
	if vc.declared[key] {
		return
	}
	vc.declared[key] = true
	if strings.HasPrefix(key, "sort:") {
		vc.sortDecls = append(vc.sortDecls, decl)
		return
	}
	vc.decls = append(vc.decls, decl)
}

func (vc *VC) fresh(base, sort string) string {
	vc.ctr++
	n := fmt.Sprintf("%s!%d", sanitize(base), vc.ctr)
	vc.decls = append(vc.decls, fmt.Sprintf("(declare-const %s %s)", n, sort))
	return n
}

func (vc *VC) errorf(format string, a ...any) {
	msg := fmt.Sprintf(format, a...)
	for _, e := range vc.errs {
		if e == msg {
			return
		}
	}
	vc.errs = append(vc.errs, msg)
}

func (vc *VC) assume(term string) {
	if term == "true" || vc.discover || vc.scratch {
		return
	}
	vc.facts = append(vc.facts, Fact{Term: term})
}

// define introduces a named constant equal to term (keeps terms small).
func (vc *VC) define(base, sort, term string) string {
	if len(term) < 24 && !strings.Contains(term, " ") {
		return term
	}
	n := vc.fresh(base, sort)
	if !vc.discover {
		vc.facts = append(vc.facts, Fact{Term: sEq(n, term)})
	}
	return n
}

func (vc *VC) oblige(kind, tag string, pos token.Pos, guard, goal, info string) {
	if vc.discover || vc.scratch {
		return
	}
	vc.oblCount[kind]++
	name := fmt.Sprintf("%s#%s", vc.key, kind)
	if n := vc.oblCount[kind]; n > 1 {
		name = fmt.Sprintf("%s#%s#%d", vc.key, kind, n)
	}
	if vc.conc {
		name += "@conc"
	}
	vc.facts = append(vc.facts, Fact{Oblig: true, Name: name, Kind: kind, Term: sImp(guard, goal), Pos: pos, Tag: tag, Info: info})
}

func (vc *VC) compKeys() map[string]bool {
	m := map[string]bool{}
	for k := range vc.compSort {
		m[k] = true
	}
	return m
}

// comp registers a state component and returns its initial constant.
func (vc *VC) comp(key, sort string) string {
	if s, ok := vc.compSort[key]; ok {
		if s != sort {
			vc.errorf("component %s used with sorts %s and %s", key, s, sort)
		}
	} else {
		vc.compSort[key] = sort
	}
	n := "c0_" + sanitize(key)
	if !vc.declared["comp:"+key] {
		vc.declareOnce("comp:"+key, fmt.Sprintf("(declare-const %s %s)", n, sort))
		if f := memInv(key, sort, n, "c0_alloc"); f != "" {
			vc.declareOnce("comp:alloc", "(declare-const c0_alloc (Array Int Bool))")
			vc.compSort["alloc"] = "(Array Int Bool)"
			vc.decls = append(vc.decls, "(assert "+f+")")
		}
	}
	return n
}

// memInv: type invariant of memory contents — every slice header stored anywhere is well formed.
// (The allocation part of well-formedness is added where values are loaded.)
func memInv(key, sort, term, alloc string) string {
	wf := func(x string) string {
		return "(and (<= 0 (soff " + x + ")) (<= 0 (slen_ " + x + ")) (<= (slen_ " + x + ") (scap " + x + ")) (=> (= (sarr " + x + ") 0) (and (= (scap " + x + ") 0) (= (soff " + x + ") 0))) (or (= (sarr " + x + ") 0) (select " + alloc + " (rootOf (sarr " + x + ")))))"
	}
	switch {
	case strings.HasPrefix(key, "E:") && sort == "(Array Int (Array Int Slice))":
		x := "(select (select " + term + " r) i)"
		return "(forall ((r Int) (i Int)) (! " + wf(x) + " :pattern (" + x + ")))"
	case (strings.HasPrefix(key, "F:") || strings.HasPrefix(key, "P:")) && sort == "(Array Int Slice)":
		x := "(select " + term + " r)"
		return "(forall ((r Int)) (! " + wf(x) + " :pattern (" + x + ")))"
	case key == chReg:
		// producer streams are registered by the activation under verification only: none at its entry
		return "(forall ((r Int)) (! (not (select " + term + " r)) :pattern ((select " + term + " r))))"
	case strings.HasPrefix(key, "MV:") && strings.HasSuffix(sort, " Slice))"):
		x := "(select (select " + term + " r) k)"
		ks := strings.TrimSuffix(strings.TrimPrefix(sort, "(Array Int (Array "), " Slice))")
		return "(forall ((r Int) (k " + ks + ")) (! " + wf(x) + " :pattern (" + x + ")))"
	}
	return ""
}

// ---------------------------------------------------------------- state

type State struct {
	m map[string]string
	// concurrent mode: the state old() refers to on the paths leading here (the state at the last acquisition);
	// nil = the function's entry state
	old     *State
	rebound bool // this state is such an old-state snapshot
}

func newState() *State { return &State{m: map[string]string{}} }

func (s *State) clone() *State {
	n := newState()
	for k, v := range s.m {
		n.m[k] = v
	}
	n.old = s.old
	n.rebound = s.rebound
	return n
}

func (ex *Exec) get(st *State, key, sort string) string {
	init := ex.vc.comp(key, sort)
	if v, ok := st.m[key]; ok {
		return v
	}
	return init
}

func (ex *Exec) set(st *State, key, sort, term string) {
	ex.vc.comp(key, sort)
	ex.noteWrite(key)
	st.m[key] = ex.vc.define("m_"+key, sort, term)
}

func (ex *Exec) noteWrite(key string) {
	top := ex
	for top.parent != nil {
		top = top.parent
	}
	if top.curBlock != nil {
		if top.writes[top.curBlock] == nil {
			top.writes[top.curBlock] = map[string]bool{}
		}
		top.writes[top.curBlock][key] = true
	}
	top.allWrites[key] = true
}

// ---------------------------------------------------------------- values

type LocKind int

const (
	LField LocKind = iota // scalar field of struct at ref Base
	LElem                 // element Idx of backing array Base
	LCell                 // cell at ref Base
	LVar                  // local variable cell that never escapes as a pointer: its own state component Key
)

type Loc struct {
	Kind  LocKind
	Base  string
	Idx   string
	Key   string     // component key
	Sort  string     // value sort
	Ty    types.Type // value type
	Guard string     // lock guard info: component key for permission checks
}

type Val struct {
	T   string
	Loc *Loc
	Tup []Val
	// Closure info for locally created closures
	Clo *ssa.MakeClosure
	Fn  *ssa.Function // static function value
}

// ---------------------------------------------------------------- loops

type Loop struct {
	Header  *ssa.BasicBlock
	Blocks  map[*ssa.BasicBlock]bool
	Ordinal int
	Spec    *LoopSpec
	Mod     map[string]bool
	Parent  *Loop
}

func findLoops(fn *ssa.Function) []*Loop {
	byHeader := map[*ssa.BasicBlock]*Loop{}
	for _, b := range fn.Blocks {
		for _, s := range b.Succs {
			if s.Dominates(b) { // back-edge b -> s
				l := byHeader[s]
				if l == nil {
					l = &Loop{Header: s, Blocks: map[*ssa.BasicBlock]bool{s: true}}
					byHeader[s] = l
				}
				// natural loop: all nodes that reach b without passing s
				stack := []*ssa.BasicBlock{b}
				for len(stack) > 0 {
					n := stack[len(stack)-1]
					stack = stack[:len(stack)-1]
					if l.Blocks[n] {
						continue
					}
					l.Blocks[n] = true
					stack = append(stack, n.Preds...)
				}
			}
		}
	}
	var loops []*Loop
	for _, l := range byHeader {
		loops = append(loops, l)
	}
	// ordinal = pre-order source order. The ssa builder creates the blocks of an outer loop before
	// those of the loops nested in it, and of an earlier loop before a later one; use the smallest
	// block index belonging to the loop *statement* (body/loop blocks), which is monotone in source order.
	minIdx := func(l *Loop) int {
		m := l.Header.Index
		for b := range l.Blocks {
			if b.Index < m {
				m = b.Index
			}
		}
		return m
	}
	sort.Slice(loops, func(i, j int) bool { return minIdx(loops[i]) < minIdx(loops[j]) })
	for i, l := range loops {
		l.Ordinal = i + 1
	}
	for _, l := range loops {
		for _, o := range loops {
			if o != l && o.Blocks[l.Header] && len(o.Blocks) > len(l.Blocks) {
				if l.Parent == nil || len(o.Blocks) < len(l.Parent.Blocks) {
					l.Parent = o
				}
			}
		}
	}
	return loops
}

// ---------------------------------------------------------------- executor

type retInfo struct {
	reach string
	vals  []Val
	st    *State
	pos   token.Pos
	block *ssa.BasicBlock
}

type Exec struct {
	vc       *VC
	fn       *ssa.Function
	ts       TSubst
	pfx      string
	vals     map[ssa.Value]Val
	reach    map[*ssa.BasicBlock]string
	outReach map[*ssa.BasicBlock]string
	out      map[*ssa.BasicBlock]*State
	loops    []*Loop
	loopAt   map[*ssa.BasicBlock]*Loop
	defers   []*ssa.Defer
	rets     []retInfo
	entry    *State
	spec     *FuncSpec
	parent   *Exec
	depth    int
	curBlock *ssa.BasicBlock
	curIdx   int // index in curBlock of the instruction being executed
	curReach string // reach term at the current instruction (entry reach ∧ earlier asserted conditions are global facts)
	curState *State
	writes   map[*ssa.BasicBlock]map[string]bool
	allWrites map[string]bool
	ghostArgs map[string]TV // ghost params of this activation
	callOrd  map[string]int
	callOrdOf map[*ssa.CallCommon]int // source-order ordinal of each call instruction among calls of the same callee name
	loopPhiOverlay map[ssa.Value]Val
	entryReach string
	rangeIters map[*ssa.Range]*rangeIter
	panicsWhen string // entry-state term: documented panic condition
	ghostLoop  *Loop
	loopEntry  map[*Loop]*State // state on entry to each loop (before the havoc), for lold()
	heldEntry  string           // HELD at function entry (from the lock clauses)
	heldEmitted bool
	acqCount   int
	noLpCheck  bool // re-acquisition inside sync.Cond.Wait: same logical critical section
	curMuOwner string // type key of the struct whose mutex field is being locked/unlocked ("" = not a field)
}

func (vc *VC) newExec(fn *ssa.Function, ts TSubst, parent *Exec) *Exec {
	ex := &Exec{vc: vc, fn: fn, ts: ts, vals: map[ssa.Value]Val{}, reach: map[*ssa.BasicBlock]string{},
		outReach: map[*ssa.BasicBlock]string{}, out: map[*ssa.BasicBlock]*State{}, loopAt: map[*ssa.BasicBlock]*Loop{},
		parent: parent, writes: map[*ssa.BasicBlock]map[string]bool{}, allWrites: map[string]bool{}, callOrd: map[string]int{},
		rangeIters: map[*ssa.Range]*rangeIter{}}
	vc.ctr++
	ex.pfx = fmt.Sprintf("%s%d_", sanitize(fn.Name()), vc.ctr)
	if parent != nil {
		ex.depth = parent.depth + 1
	}
	ex.loops = findLoops(fn)
	for _, l := range ex.loops {
		ex.loopAt[l.Header] = l
	}
	ex.callOrdOf = map[*ssa.CallCommon]int{}
	type cs struct {
		c    *ssa.CallCommon
		name string
		pos  token.Pos
		seq  int
	}
	var all []cs
	for _, b := range fn.Blocks {
		for _, ins := range b.Instrs {
			if ci, ok := ins.(ssa.CallInstruction); ok {
				all = append(all, cs{ci.Common(), calleeName(ci.Common()), ins.Pos(), len(all)})
			}
		}
	}
	sort.SliceStable(all, func(i, j int) bool {
		if all[i].pos != all[j].pos {
			return all[i].pos < all[j].pos
		}
		return all[i].seq < all[j].seq
	})
	cnt := map[string]int{}
	for _, c := range all {
		cnt[c.name]++
		ex.callOrdOf[c.c] = cnt[c.name]
	}
	return ex
}

// calleeName: the name under which a call site is addressed in contracts (call f#k, ghost-at f#k).
func calleeName(c *ssa.CallCommon) string {
	if c.IsInvoke() {
		return c.Method.Name()
	}
	switch v := c.Value.(type) {
	case *ssa.Builtin:
		return v.Name()
	case *ssa.Function:
		if v.Origin() != nil {
			return v.Origin().Name()
		}
		return v.Name()
	case *ssa.MakeClosure:
		return v.Fn.Name()
	}
	return "$func"
}

func (ex *Exec) typ(t types.Type) types.Type { return ex.ts.apply(t) }
func (ex *Exec) sortOfT(t types.Type) string { return ex.vc.sortOf(ex.typ(t)) }

// rpo returns blocks in reverse post-order ignoring back-edges and unreachable blocks.
func (ex *Exec) rpo() []*ssa.BasicBlock {
	seen := map[*ssa.BasicBlock]bool{}
	var post []*ssa.BasicBlock
	var dfs func(b *ssa.BasicBlock)
	dfs = func(b *ssa.BasicBlock) {
		seen[b] = true
		for _, s := range b.Succs {
			if s.Dominates(b) {
				continue
			}
			if !seen[s] {
				dfs(s)
			}
		}
		post = append(post, b)
	}
	dfs(ex.fn.Blocks[0])
	for i, j := 0, len(post)-1; i < j; i, j = i+1, j-1 {
		post[i], post[j] = post[j], post[i]
	}
	return post
}

func edgeCond(ex *Exec, p, s *ssa.BasicBlock) string {
	if len(p.Instrs) == 0 {
		return "true"
	}
	if ifi, ok := p.Instrs[len(p.Instrs)-1].(*ssa.If); ok {
		if p.Succs[0] == p.Succs[1] {
			return "true"
		}
		c := ex.val(ifi.Cond).T
		if p.Succs[0] == s {
			return c
		}
		return sNot(c)
	}
	return "true"
}

type edge struct {
	from *ssa.BasicBlock
	cond string // taken condition (reach ∧ branch)
	idx  int    // index in b.Preds
}

// mergeStates builds the state at a join from incoming edges.
func (ex *Exec) mergeStates(edges []edge) *State {
	if len(edges) == 0 {
		return newState()
	}
	if len(edges) == 1 {
		return ex.out[edges[0].from].clone()
	}
	keys := map[string]bool{}
	for _, e := range edges {
		for k := range ex.out[e.from].m {
			keys[k] = true
		}
	}
	var ks []string
	for k := range keys {
		ks = append(ks, k)
	}
	sort.Strings(ks)
	st := newState()
	for _, k := range ks {
		srt := ex.vc.compSort[k]
		first := ex.get(ex.out[edges[0].from], k, srt)
		same := true
		for _, e := range edges[1:] {
			if ex.get(ex.out[e.from], k, srt) != first {
				same = false
			}
		}
		if same {
			st.m[k] = first
			continue
		}
		term := ex.get(ex.out[edges[len(edges)-1].from], k, srt)
		for i := len(edges) - 2; i >= 0; i-- {
			term = sIte(edges[i].cond, ex.get(ex.out[edges[i].from], k, srt), term)
		}
		st.m[k] = ex.vc.define("j_"+k, srt, term)
	}
	var olds []*State
	var conds []string
	for _, e := range edges {
		olds = append(olds, ex.out[e.from].old)
		conds = append(conds, e.cond)
	}
	st.old = ex.mergeOlds(olds, conds)
	return st
}

// mergeOlds: the old-state at a join (concurrent mode).
func (ex *Exec) mergeOlds(olds []*State, conds []string) *State {
	same := true
	for _, o := range olds[1:] {
		if o != olds[0] {
			same = false
		}
	}
	if same {
		return olds[0]
	}
	top := ex.topExec()
	get := func(o *State) *State {
		if o == nil {
			return top.entry
		}
		return o
	}
	keys := map[string]bool{}
	for _, o := range olds {
		for k := range get(o).m {
			keys[k] = true
		}
	}
	ns := newState()
	ns.rebound = true
	for _, k := range sortedKeys(keys) {
		srt := ex.vc.compSort[k]
		if srt == "" {
			continue
		}
		term := ex.get(get(olds[len(olds)-1]), k, srt)
		for i := len(olds) - 2; i >= 0; i-- {
			term = sIte(conds[i], ex.get(get(olds[i]), k, srt), term)
		}
		ns.m[k] = ex.vc.define("jo_"+k, srt, term)
	}
	return ns
}

func (ex *Exec) mergeVals(edges []edge, get func(e edge) string, sort string, base string) string {
	if len(edges) == 0 {
		return ex.vc.fresh(base, sort)
	}
	term := get(edges[len(edges)-1])
	for i := len(edges) - 2; i >= 0; i-- {
		term = sIte(edges[i].cond, get(edges[i]), term)
	}
	return ex.vc.define(base, sort, term)
}

// run executes the function body symbolically. entryReach/entryState describe the call context.
func (ex *Exec) run(entryReach string, entryState *State) {
	ex.entry = entryState.clone()
	ex.entryReach = entryReach
	order := ex.rpo()
	for _, b := range order {
		ex.curBlock = b
		if ex.parent != nil {
			// writes of inlined code are attributed to the caller's block; keep parent's curBlock
		}
		var edges []edge
		var backEdges []int
		for i, p := range b.Preds {
			if b.Dominates(p) {
				backEdges = append(backEdges, i)
				continue
			}
			if _, ok := ex.outReach[p]; !ok {
				continue // unreachable predecessor
			}
			edges = append(edges, edge{from: p, cond: sAnd(ex.outReach[p], edgeCond(ex, p, b)), idx: i})
		}
		var st *State
		var reach string
		if b.Index == 0 {
			st = entryState.clone()
			reach = entryReach
		} else {
			st = ex.mergeStates(edges)
			var cs []string
			for _, e := range edges {
				cs = append(cs, e.cond)
			}
			reach = ex.vc.define(ex.pfx+"reach_"+fmt.Sprint(b.Index), "Bool", sOr(cs...))
		}
		loop := ex.loopAt[b]
		// phis
		phiIn := map[*ssa.Phi]Val{}
		for _, ins := range b.Instrs {
			phi, ok := ins.(*ssa.Phi)
			if !ok {
				break
			}
			srt := ex.sortOfT(phi.Type())
			t := ex.mergeVals(edges, func(e edge) string { return ex.val(phi.Edges[e.idx]).T }, srt, ex.pfx+phi.Name())
			phiIn[phi] = Val{T: t}
		}
		if loop != nil {
			ex.loopHead(loop, b, edges, reach, st, phiIn)
			reach = ex.reach[b]
			st = ex.curState
		} else {
			for phi, v := range phiIn {
				ex.vals[phi] = v
			}
			ex.reach[b] = reach
		}
		ex.curReach = reach
		ex.curState = st
		for idx, ins := range b.Instrs {
			if _, ok := ins.(*ssa.Phi); ok {
				continue
			}
			ex.curIdx = idx
			ex.instr(ins)
		}
		ex.curIdx = len(b.Instrs)
		ex.out[b] = ex.curState
		ex.outReach[b] = ex.curReach
		// back-edges out of b
		for _, s := range b.Succs {
			if s.Dominates(b) {
				if l := ex.loopAt[s]; l != nil {
					ex.loopBack(l, b, s)
				}
			}
		}
	}
}

// ---------------------------------------------------------------- instruction semantics

func (ex *Exec) val(v ssa.Value) Val {
	if ex.loopPhiOverlay != nil {
		if o, ok := ex.loopPhiOverlay[v]; ok {
			return o
		}
	}
	if r, ok := ex.vals[v]; ok {
		return r
	}
	switch v := v.(type) {
	case *ssa.Const:
		return ex.constVal(v)
	case *ssa.Function:
		id := "fn_" + sanitize(v.String())
		ex.vc.declareOnce("fn:"+id, "(declare-const "+id+" Int)")
		ex.vc.declareOnce("fnz:"+id, "(assert (not (= "+id+" 0)))")
		return Val{T: id, Fn: v}
	case *ssa.Global:
		id := "glob_" + sanitize(v.String())
		ex.vc.declareOnce("glob:"+id, "(declare-const "+id+" Int)")
		ex.vc.declareOnce("globz:"+id, "(assert (and (not (= "+id+" 0)) (not (isSub "+id+"))))")
		return Val{T: id}
	case *ssa.Builtin:
		return Val{T: "0"}
	}
	// value not yet computed (e.g. defined in unreachable block)
	ex.vc.errorf("%s: value %s (%T) used before definition", ex.fn.Name(), v.Name(), v)
	t := ex.vc.fresh(ex.pfx+"undef_"+v.Name(), ex.sortOfT(v.Type()))
	return Val{T: t}
}

func (ex *Exec) constVal(c *ssa.Const) Val {
	t := ex.typ(c.Type())
	if c.Value == nil {
		return Val{T: ex.vc.zeroOf(t)}
	}
	switch u := t.Underlying().(type) {
	case *types.Basic:
		switch {
		case u.Info()&types.IsBoolean != 0:
			if c.Value.String() == "true" {
				return Val{T: "true"}
			}
			return Val{T: "false"}
		case u.Info()&types.IsInteger != 0:
			return Val{T: smtIntLit(c.Value.ExactString())}
		case u.Info()&types.IsFloat != 0:
			return Val{T: smtRealLit(c.Value.ExactString())}
		case u.Info()&types.IsString != 0:
			return Val{T: ex.vc.strLit(constantString(c))}
		}
	}
	if tp, ok := types.Unalias(t).(*types.TypeParam); ok {
		switch classifyTypeParam(tp) {
		case tpNum:
			return Val{T: smtIntLit(c.Value.ExactString())}
		case tpStr:
			return Val{T: ex.vc.strLit(constantString(c))}
		}
	}
	ex.vc.errorf("unsupported constant %s of type %s", c, t)
	return Val{T: ex.vc.zeroOf(t)}
}

func smtIntLit(s string) string {
	if strings.HasPrefix(s, "-") {
		return "(- " + s[1:] + ")"
	}
	if strings.Contains(s, "/") || strings.Contains(s, ".") {
		return smtRealLit(s)
	}
	return s
}

func smtRealLit(s string) string {
	neg := strings.HasPrefix(s, "-")
	if neg {
		s = s[1:]
	}
	var t string
	if k := strings.Index(s, "/"); k >= 0 {
		t = "(/ " + s[:k] + ".0 " + s[k+1:] + ".0)"
	} else if strings.Contains(s, ".") {
		t = s
	} else {
		t = s + ".0"
	}
	if neg {
		return "(- " + t + ")"
	}
	return t
}

// typeInv returns facts every runtime value of this type satisfies.
func (ex *Exec) typeInv(term string, t types.Type, st *State) string {
	t = ex.typ(t)
	switch u := t.Underlying().(type) {
	case *types.Slice:
		return sAnd("(<= 0 (soff "+term+"))", "(<= 0 (slen_ "+term+"))", "(<= (slen_ "+term+") (scap "+term+"))",
			"(<= (+ (soff "+term+") (scap "+term+")) 72057594037927936)",
			sOr("(= (sarr "+term+") 0)", sSel(ex.get(st, "alloc", "(Array Int Bool)"), "(rootOf (sarr "+term+"))")),
			sImp("(= (sarr "+term+") 0)", "(and (= (scap "+term+") 0) (= (soff "+term+") 0))"))
	case *types.Basic:
		if u.Info()&types.IsInteger != 0 {
			lo, hi := intRange(u)
			if lo != "" {
				return "(and (<= " + lo + " " + term + ") (<= " + term + " " + hi + "))"
			}
		}
		if u.Info()&types.IsString != 0 {
			return ex.strInv(term)
		}
	case *types.Pointer, *types.Map, *types.Chan:
		return sOr("(= "+term+" 0)", sSel(ex.get(st, "alloc", "(Array Int Bool)"), "(rootOf "+term+")"))
	}
	if tp, ok := types.Unalias(t).(*types.TypeParam); ok {
		switch classifyTypeParam(tp) {
		case tpNum:
			if ex.vc.spec != nil && ex.vc.spec.Arith == "checked" {
				lo, hi := ex.vc.tpBounds(tp)
				return "(and (<= " + lo + " " + term + ") (<= " + term + " " + hi + "))"
			}
		case tpStr:
			return ex.strInv(term)
		}
	}
	return "true"
}

// tpBounds: symbolic bounds of a numeric type parameter (checked arithmetic).
func (vc *VC) tpBounds(tp *types.TypeParam) (string, string) {
	n := sanitize(tp.Obj().Name())
	lo, hi := "Tmin_"+n, "Tmax_"+n
	vc.declareOnce("tpb:"+n, fmt.Sprintf("(declare-const %s Int)\n(declare-const %s Int)\n(assert (and (>= %s 127) (or (= %s (- (- %s) 1)) (= %s 0))))", lo, hi, hi, lo, hi, lo))
	return lo, hi
}

func intRange(b *types.Basic) (string, string) {
	switch b.Kind() {
	case types.Int, types.Int64:
		return "(- 9223372036854775808)", "9223372036854775807"
	case types.Int32:
		return "(- 2147483648)", "2147483647"
	case types.Int16:
		return "(- 32768)", "32767"
	case types.Int8:
		return "(- 128)", "127"
	case types.Uint, types.Uint64, types.Uintptr:
		return "0", "18446744073709551615"
	case types.Uint32:
		return "0", "4294967295"
	case types.Uint16:
		return "0", "65535"
	case types.Uint8:
		return "0", "255"
	}
	return "", ""
}

func (ex *Exec) setVal(v ssa.Value, val Val) { ex.vals[v] = val }

// named: bind an SSA value to a named constant with the given term.
func (ex *Exec) bind(v ssa.Value, term string) {
	srt := ex.sortOfT(v.Type())
	n := ex.vc.define(ex.pfx+v.Name(), srt, term)
	ex.vals[v] = Val{T: n}
}

func (ex *Exec) allocComp(st *State) string { return ex.get(st, "alloc", "(Array Int Bool)") }

// newRef allocates a fresh reference.
func (ex *Exec) newRef(base string) string {
	r := ex.vc.fresh(ex.pfx+base, "Int")
	al := ex.allocComp(ex.curState)
	ex.vc.assume(sAnd("(not (= "+r+" 0))", "(not (isSub "+r+"))", sNot(sSel(al, r))))
	ex.set(ex.curState, "alloc", "(Array Int Bool)", sSto(al, r, "true"))
	return r
}

func (ex *Exec) nopanic(kind string, pos token.Pos, cond, info string) {
	goal := cond
	if ex.panicsWhen != "" {
		goal = sOr(cond, ex.panicsWhen)
	}
	ex.vc.oblige(kind, "", pos, ex.curReach, goal, info)
	// after the check execution continues only if cond holds
	if goal != cond {
		ex.vc.assume(sImp(ex.curReach, cond))
	}
}

func (ex *Exec) instr(ins ssa.Instruction) {
	switch i := ins.(type) {
	case *ssa.DebugRef:
	case *ssa.Alloc:
		ex.doAlloc(i)
	case *ssa.BinOp:
		ex.doBinOp(i)
	case *ssa.UnOp:
		ex.doUnOp(i)
	case *ssa.FieldAddr:
		ex.doFieldAddr(i)
	case *ssa.Field:
		x := ex.val(i.X)
		n, st := structOf(ex.typ(i.X.Type()))
		srt := ex.vc.structSort(n, st)
		ex.bind(i, sApp(srt+"_"+sanitize(fieldName(st, i.Field)), x.T))
	case *ssa.IndexAddr:
		ex.doIndexAddr(i)
	case *ssa.Index:
		x := ex.val(i.X)
		idx := ex.val(i.Index)
		if at, ok := ex.typ(i.X.Type()).Underlying().(*types.Array); ok {
			ex.nopanic("nopanic.index", i.Pos(), sAnd("(<= 0 "+idx.T+")", fmt.Sprintf("(< %s %d)", idx.T, at.Len())), "array index in range")
			ex.bind(i, sSel(x.T, idx.T))
		} else {
			// string index
			ex.nopanic("nopanic.index", i.Pos(), sAnd("(<= 0 "+idx.T+")", "(< "+idx.T+" (slen "+x.T+"))"), "string index in range")
			ex.bind(i, sSel("(sbytes "+x.T+")", idx.T))
		}
	case *ssa.Store:
		ex.doStore(i.Addr, ex.val(i.Val), i.Pos())
	case *ssa.Slice:
		ex.doSlice(i)
	case *ssa.MakeSlice:
		ex.doMakeSlice(i)
	case *ssa.MakeMap:
		ex.doMakeMap(i)
	case *ssa.Lookup:
		ex.doLookup(i)
	case *ssa.MapUpdate:
		ex.doMapUpdate(i)
	case *ssa.Extract:
		t := ex.val(i.Tuple)
		if i.Index < len(t.Tup) {
			ex.vals[i] = t.Tup[i.Index]
		} else {
			ex.vc.errorf("extract from non-tuple %s", i.Tuple.Name())
			ex.vals[i] = Val{T: ex.vc.fresh(ex.pfx+i.Name(), ex.sortOfT(i.Type()))}
		}
	case *ssa.Call:
		ex.doCall(i, &i.Call, i.Pos())
	case *ssa.Defer:
		if ex.loopOfBlock(ex.curBlock) != nil {
			ex.vc.errorf("defer inside a loop is outside the supported subset")
		}
		ex.defers = append(ex.defers, i)
	case *ssa.RunDefers:
		for k := len(ex.defers) - 1; k >= 0; k-- {
			d := ex.defers[k]
			ex.doCall(nil, &d.Call, d.Pos())
		}
	case *ssa.ChangeType:
		if _, isTP := types.Unalias(ex.typ(i.X.Type())).(*types.TypeParam); isTP {
			if _, isIface := ex.typ(i.Type()).Underlying().(*types.Interface); isIface {
				// any(v) for v of type-parameter type: the dynamic value is boxed like any other value
				fn, _ := ex.boxFn(i.X.Type())
				ex.bind(i, sApp(fn, ex.val(i.X).T))
				break
			}
		}
		ex.vals[i] = ex.val(i.X)
	case *ssa.Convert:
		ex.doConvert(i)
	case *ssa.MultiConvert:
		// conversion to/from a type parameter: every member of the type set converts the same way in the model
		from, to := ex.typ(i.X.Type()), ex.typ(i.Type())
		switch {
		case ex.isNumeric(from) && ex.isNumeric(to) && ex.sortOfT(from) == ex.sortOfT(to):
			ex.vals[i] = ex.val(i.X)
		case ex.isStringy(from) && ex.isStringy(to):
			ex.vals[i] = ex.val(i.X)
		case ex.isStringy(to) && ex.isNumeric(from):
			ex.bind(i, ex.vc.strFromRune(ex.val(i.X).T))
		case ex.isStringy(to):
			if sl, ok := from.Underlying().(*types.Slice); ok {
				ex.bind(i, ex.strFromSlice(ex.val(i.X).T, sl))
			} else {
				ex.vc.errorf("unsupported multi-conversion %s -> %s", from, to)
			}
		case ex.isStringy(from):
			if sl, ok := to.Underlying().(*types.Slice); ok {
				ex.bind(i, ex.sliceFromStr(ex.val(i.X).T, sl))
			} else {
				ex.vc.errorf("unsupported multi-conversion %s -> %s", from, to)
			}
		default:
			ex.vc.errorf("unsupported multi-conversion %s -> %s at %s", from, to, ex.vc.w.pos(i.Pos()))
			ex.vals[i] = Val{T: ex.vc.fresh(ex.pfx+i.Name(), ex.sortOfT(i.Type()))}
		}
	case *ssa.MakeInterface:
		ex.doMakeInterface(i)
	case *ssa.ChangeInterface:
		ex.vals[i] = ex.val(i.X)
	case *ssa.TypeAssert:
		ex.doTypeAssert(i)
	case *ssa.MakeClosure:
		id := ex.vc.fresh(ex.pfx+"clo_"+i.Name(), "Int")
		ex.vc.assume("(not (= " + id + " 0))")
		ex.vals[i] = Val{T: id, Clo: i}
		ex.closureAxiom(i, id)
	case *ssa.Range:
		ex.doRange(i)
	case *ssa.Next:
		ex.doNext(i)
	case *ssa.MakeChan:
		ex.doMakeChan(i)
	case *ssa.Go:
		ex.doGo(i)
	case *ssa.Send:
		ex.doSend(i)
	case *ssa.Select:
		ex.doSelect(i)
	case *ssa.Jump, *ssa.If:
	case *ssa.Return:
		var vs []Val
		for _, r := range i.Results {
			vs = append(vs, ex.val(r))
		}
		ex.escapeCheck(i.Results, i.Pos())
		ex.rets = append(ex.rets, retInfo{reach: ex.curReach, vals: vs, st: ex.curState.clone(), pos: i.Pos(), block: ex.curBlock})
	case *ssa.Panic:
		if ex.panicsWhen != "" {
			ex.vc.oblige("panic.documented", "", i.Pos(), ex.curReach, ex.panicsWhen, "explicit panic only under the documented condition")
		} else {
			ex.vc.oblige("nopanic.explicit", "", i.Pos(), ex.curReach, "false", "explicit panic unreachable")
		}
		ex.curReach = "false"
	default:
		ex.vc.errorf("unsupported instruction %T at %s", ins, ex.vc.w.pos(ins.Pos()))
		if v, ok := ins.(ssa.Value); ok {
			ex.vals[v] = Val{T: ex.vc.fresh(ex.pfx+v.Name(), ex.sortOfT(v.Type()))}
		}
	}
}

func (ex *Exec) loopOfBlock(b *ssa.BasicBlock) *Loop {
	var best *Loop
	for _, l := range ex.loops {
		if l.Blocks[b] && (best == nil || len(l.Blocks) < len(best.Blocks)) {
			best = l
		}
	}
	return best
}

// ---- memory

func (ex *Exec) fieldKey(n *types.Named, st *types.Struct, fi int) (string, string, types.Type) {
	ft := st.Field(fi).Type()
	srt := ex.vc.sortOf(ft)
	base := "anon"
	if n != nil {
		base = namedKey(n)
	}
	return "F:" + base + "." + fieldName(st, fi) + "|" + srt, srt, ft
}

func (ex *Exec) elemKey(elem types.Type) (string, string) {
	srt := ex.vc.sortOf(elem)
	return "E:" + srt, srt
}

func (ex *Exec) cellKey(t types.Type) (string, string) {
	srt := ex.vc.sortOf(t)
	return "P:" + srt, srt
}

// loadAt reads a value of type t stored at reference ref.
func (ex *Exec) loadAt(st *State, ref string, t types.Type) string {
	t = ex.typ(t)
	if n, s := structOf(t); s != nil {
		srt := ex.vc.structSort(n, s)
		if s.NumFields() == 0 {
			return "mk_" + srt
		}
		var fs []string
		for i := 0; i < s.NumFields(); i++ {
			ft := s.Field(i).Type()
			if isAggregate(ft) {
				fs = append(fs, ex.loadAt(st, fmt.Sprintf("(sub %s %d)", ref, i), ft))
			} else {
				k, fsrt, _ := ex.fieldKey(n, s, i)
				fs = append(fs, sSel(ex.get(st, k, "(Array Int "+fsrt+")"), ref))
			}
		}
		return "(mk_" + srt + " " + strings.Join(fs, " ") + ")"
	}
	if at, ok := t.Underlying().(*types.Array); ok {
		if isStructType(at.Elem()) {
			// array of structs lives at sub-references; build the array value element-wise (small N only)
			arr := "((as const " + ex.vc.sortOf(t) + ") " + ex.vc.zeroOf(at.Elem()) + ")"
			for i := int64(0); i < at.Len(); i++ {
				arr = sSto(arr, fmt.Sprint(i), ex.loadAt(st, fmt.Sprintf("(sub %s %d)", ref, i), at.Elem()))
			}
			return arr
		}
		k, srt := ex.elemKey(at.Elem())
		return sSel(ex.get(st, k, "(Array Int (Array Int "+srt+"))"), ref)
	}
	k, srt := ex.cellKey(t)
	return sSel(ex.get(st, k, "(Array Int "+srt+")"), ref)
}

func (ex *Exec) storeAt(st *State, ref string, t types.Type, v string) {
	t = ex.typ(t)
	if n, s := structOf(t); s != nil {
		srt := ex.vc.structSort(n, s)
		for i := 0; i < s.NumFields(); i++ {
			ft := s.Field(i).Type()
			fv := sApp(srt+"_"+sanitize(fieldName(s, i)), v)
			if isAggregate(ft) {
				ex.storeAt(st, fmt.Sprintf("(sub %s %d)", ref, i), ft, fv)
			} else {
				k, fsrt, _ := ex.fieldKey(n, s, i)
				as := "(Array Int " + fsrt + ")"
				ex.permCheck(k, ref, true)
				ex.set(st, k, as, sSto(ex.get(st, k, as), ref, fv))
			}
		}
		return
	}
	if at, ok := t.Underlying().(*types.Array); ok {
		if isStructType(at.Elem()) {
			for i := int64(0); i < at.Len(); i++ {
				ex.storeAt(st, fmt.Sprintf("(sub %s %d)", ref, i), at.Elem(), sSel(v, fmt.Sprint(i)))
			}
			return
		}
		k, srt := ex.elemKey(at.Elem())
		as := "(Array Int (Array Int " + srt + "))"
		ex.set(st, k, as, sSto(ex.get(st, k, as), ref, v))
		return
	}
	k, srt := ex.cellKey(t)
	as := "(Array Int " + srt + ")"
	ex.set(st, k, as, sSto(ex.get(st, k, as), ref, v))
}

func (ex *Exec) loadLoc(st *State, l *Loc) string {
	switch l.Kind {
	case LVar:
		return ex.get(st, l.Key, l.Sort)
	case LField:
		ex.permCheck(l.Key, l.Base, false)
		return sSel(ex.get(st, l.Key, "(Array Int "+l.Sort+")"), l.Base)
	case LElem:
		ex.permCheckElem(l.Key, l.Base, false)
		return sSel(sSel(ex.get(st, l.Key, "(Array Int (Array Int "+l.Sort+"))"), l.Base), l.Idx)
	}
	return sSel(ex.get(st, l.Key, "(Array Int "+l.Sort+")"), l.Base)
}

func (ex *Exec) loadLocNoPerm(st *State, l *Loc) string {
	switch l.Kind {
	case LVar:
		return ex.get(st, l.Key, l.Sort)
	case LField:
		return sSel(ex.get(st, l.Key, "(Array Int "+l.Sort+")"), l.Base)
	case LElem:
		return sSel(sSel(ex.get(st, l.Key, "(Array Int (Array Int "+l.Sort+"))"), l.Base), l.Idx)
	}
	return sSel(ex.get(st, l.Key, "(Array Int "+l.Sort+")"), l.Base)
}

func (ex *Exec) storeLoc(st *State, l *Loc, v string) {
	switch l.Kind {
	case LVar:
		ex.set(st, l.Key, l.Sort, v)
	case LField:
		as := "(Array Int " + l.Sort + ")"
		ex.permCheck(l.Key, l.Base, true)
		ex.set(st, l.Key, as, sSto(ex.get(st, l.Key, as), l.Base, v))
	case LElem:
		as := "(Array Int (Array Int " + l.Sort + "))"
		ex.permCheckElem(l.Key, l.Base, true)
		cur := ex.get(st, l.Key, as)
		ex.set(st, l.Key, as, sSto(cur, l.Base, sSto(sSel(cur, l.Base), l.Idx, v)))
	default:
		as := "(Array Int " + l.Sort + ")"
		ex.set(st, l.Key, as, sSto(ex.get(st, l.Key, as), l.Base, v))
	}
}

// allocIsLocalVar: a scalar local whose address is only used for loads, stores and closure capture (and the
// capturing closures use it the same way). Such a cell cannot alias anything, so it is modelled as a state
// component of its own instead of an entry of the shared cell array.
func allocIsLocalVar(a ssa.Value, depth int) bool {
	if depth > 4 {
		return false
	}
	refs := a.Referrers()
	if refs == nil {
		return false
	}
	for _, r := range *refs {
		switch x := r.(type) {
		case *ssa.DebugRef:
		case *ssa.UnOp:
			if x.Op != token.MUL {
				return false
			}
		case *ssa.Store:
			if x.Addr != a || x.Val == a {
				return false
			}
		case *ssa.MakeClosure:
			fn := x.Fn.(*ssa.Function)
			for k, b := range x.Bindings {
				if b == a {
					if k >= len(fn.FreeVars) || !allocIsLocalVar(fn.FreeVars[k], depth+1) {
						return false
					}
				}
			}
		default:
			return false
		}
	}
	return true
}

func (ex *Exec) doAlloc(i *ssa.Alloc) {
	pt := ex.typ(i.Type()).(*types.Pointer).Elem()
	if !isAggregate(pt) && allocIsLocalVar(i, 0) {
		srt := ex.vc.sortOf(pt)
		key := fmt.Sprintf("L:%s%s_%s", ex.pfx, i.Name(), sanitize(i.Comment))
		ex.vals[i] = Val{Loc: &Loc{Kind: LVar, Key: key, Sort: srt, Ty: pt}}
		ex.set(ex.curState, key, srt, ex.vc.zeroOf(pt))
		return
	}
	r := ex.newRef(i.Name() + "_" + sanitize(i.Comment))
	ex.vals[i] = Val{T: r}
	if n, ok := types.Unalias(pt).(*types.Named); ok && n.Obj().Pkg() != nil && n.Obj().Pkg().Path() == "strings" && n.Obj().Name() == "Builder" {
		// a zero strings.Builder is empty (its content is tracked as a ghost string)
		st := ex.curState
		ex.set(st, "SB", "(Array Int Str)", sSto(ex.get(st, "SB", "(Array Int Str)"), r, ex.vc.strEmpty()))
		return
	}
	ex.storeZero(ex.curState, r, pt)
}

func (ex *Exec) storeZero(st *State, ref string, t types.Type) {
	ex.storeAt(st, ref, t, ex.vc.zeroOf(ex.typ(t)))
}

func (ex *Exec) nilCheck(p Val, pos token.Pos) {
	if p.T == "" {
		return
	}
	ex.nopanic("nopanic.nil", pos, "(not (= "+p.T+" 0))", "nil dereference")
}

func (ex *Exec) doFieldAddr(i *ssa.FieldAddr) {
	x := ex.val(i.X)
	pt := ex.typ(i.X.Type()).Underlying().(*types.Pointer).Elem()
	n, st := structOf(pt)
	if st == nil {
		ex.vc.errorf("FieldAddr on non-struct %s", pt)
		return
	}
	if !ex.knownNonNil(i.X) {
		ex.nilCheck(x, i.Pos())
	}
	ft := st.Field(i.Field).Type()
	if isAggregate(ft) {
		ex.vals[i] = Val{T: fmt.Sprintf("(sub %s %d)", x.T, i.Field)}
		return
	}
	k, srt, _ := ex.fieldKey(n, st, i.Field)
	ex.vals[i] = Val{Loc: &Loc{Kind: LField, Base: x.T, Key: k, Sort: srt, Ty: ft}}
}

// knownNonNil: receivers of methods, allocs, and sub-object addresses.
func (ex *Exec) knownNonNil(v ssa.Value) bool {
	switch v := v.(type) {
	case *ssa.Alloc:
		return true
	case *ssa.FieldAddr, *ssa.IndexAddr:
		return true
	case *ssa.Parameter:
		if ex.fn.Signature.Recv() != nil && len(ex.fn.Params) > 0 && ex.fn.Params[0] == v && ex.parent == nil {
			if ex.vc.spec == nil || ex.vc.spec.Opts["nil-receiver"] == "" {
				return true
			}
		}
	}
	return false
}

func (ex *Exec) doIndexAddr(i *ssa.IndexAddr) {
	x := ex.val(i.X)
	idx := ex.val(i.Index)
	xt := ex.typ(i.X.Type()).Underlying()
	switch t := xt.(type) {
	case *types.Slice:
		ex.nopanic("nopanic.index", i.Pos(), sAnd("(<= 0 "+idx.T+")", "(< "+idx.T+" (slen_ "+x.T+"))"), "slice index in range")
		at := "(ix (soff " + x.T + ") " + idx.T + ")"
		if isStructType(t.Elem()) {
			ex.vals[i] = Val{T: "(sub (sarr " + x.T + ") " + at + ")"}
			return
		}
		k, srt := ex.elemKey(t.Elem())
		ex.vals[i] = Val{Loc: &Loc{Kind: LElem, Base: "(sarr " + x.T + ")", Idx: at, Key: k, Sort: srt, Ty: t.Elem()}}
	case *types.Pointer:
		at := t.Elem().Underlying().(*types.Array)
		if !ex.knownNonNil(i.X) {
			ex.nilCheck(x, i.Pos())
		}
		ex.nopanic("nopanic.index", i.Pos(), sAnd("(<= 0 "+idx.T+")", fmt.Sprintf("(< %s %d)", idx.T, at.Len())), "array index in range")
		if isStructType(at.Elem()) {
			ex.vals[i] = Val{T: "(sub " + x.T + " " + idx.T + ")"}
			return
		}
		k, srt := ex.elemKey(at.Elem())
		ex.vals[i] = Val{Loc: &Loc{Kind: LElem, Base: x.T, Idx: idx.T, Key: k, Sort: srt, Ty: at.Elem()}}
	default:
		ex.vc.errorf("IndexAddr on %s", xt)
	}
}

func (ex *Exec) load(addr ssa.Value, pos token.Pos) string {
	a := ex.val(addr)
	pt := ex.typ(addr.Type()).Underlying().(*types.Pointer).Elem()
	if a.Loc != nil {
		return ex.loadLoc(ex.curState, a.Loc)
	}
	if !ex.knownNonNil(addr) {
		ex.nilCheck(a, pos)
	}
	return ex.loadAt(ex.curState, a.T, pt)
}

func (ex *Exec) doStore(addr ssa.Value, v Val, pos token.Pos) {
	a := ex.val(addr)
	pt := ex.typ(addr.Type()).Underlying().(*types.Pointer).Elem()
	if a.Loc != nil {
		ex.storeLoc(ex.curState, a.Loc, v.T)
		return
	}
	if !ex.knownNonNil(addr) {
		ex.nilCheck(a, pos)
	}
	ex.storeAt(ex.curState, a.T, pt, v.T)
}

func (ex *Exec) doUnOp(i *ssa.UnOp) {
	switch i.Op {
	case token.MUL: // load
		t := ex.load(i.X, i.Pos())
		ex.bind(i, t)
		ex.vc.assume(sImp(ex.curReach, ex.typeInv(ex.vals[i].T, i.Type(), ex.curState)))
	case token.NOT:
		ex.bind(i, sNot(ex.val(i.X).T))
	case token.SUB:
		x := ex.val(i.X).T
		ex.arithCheck(i, "(- "+x+")", i.Pos())
		ex.bind(i, "(- "+x+")")
	case token.ARROW:
		ex.doRecv(i)
	default:
		ex.vc.errorf("unsupported unary op %s", i.Op)
		ex.vals[i] = Val{T: ex.vc.fresh(ex.pfx+i.Name(), ex.sortOfT(i.Type()))}
	}
}

// arithCheck emits an overflow obligation in `arith checked` functions.
func (ex *Exec) arithCheck(v ssa.Value, term string, pos token.Pos) {
	if ex.vc.spec == nil || ex.vc.spec.Arith != "checked" {
		return
	}
	t := ex.typ(v.Type())
	if b, ok := t.Underlying().(*types.Basic); ok && b.Info()&types.IsInteger != 0 {
		lo, hi := intRange(b)
		if lo != "" {
			ex.nopanic("overflow", pos, "(and (<= "+lo+" "+term+") (<= "+term+" "+hi+"))", "no integer overflow")
		}
		return
	}
	if tp, ok := types.Unalias(t).(*types.TypeParam); ok && classifyTypeParam(tp) == tpNum {
		lo, hi := ex.vc.tpBounds(tp)
		ex.nopanic("overflow", pos, "(and (<= "+lo+" "+term+") (<= "+term+" "+hi+"))", "no overflow in the numeric type parameter")
	}
}

func (ex *Exec) isNumeric(t types.Type) bool {
	t = ex.typ(t)
	if b, ok := t.Underlying().(*types.Basic); ok {
		return b.Info()&types.IsNumeric != 0
	}
	if tp, ok := types.Unalias(t).(*types.TypeParam); ok {
		return classifyTypeParam(tp) == tpNum
	}
	return false
}

func (ex *Exec) isStringy(t types.Type) bool {
	t = ex.typ(t)
	if b, ok := t.Underlying().(*types.Basic); ok {
		return b.Info()&types.IsString != 0
	}
	if tp, ok := types.Unalias(t).(*types.TypeParam); ok {
		return classifyTypeParam(tp) == tpStr
	}
	return false
}

func (ex *Exec) isFloat(t types.Type) bool {
	t = ex.typ(t)
	if b, ok := t.Underlying().(*types.Basic); ok {
		return b.Info()&types.IsFloat != 0
	}
	return false
}

func (ex *Exec) doBinOp(i *ssa.BinOp) {
	x, y := ex.val(i.X).T, ex.val(i.Y).T
	xt := i.X.Type()
	switch i.Op {
	case token.ADD:
		if ex.isStringy(xt) {
			ex.bind(i, ex.vc.strConcat(x, y))
			return
		}
		t := "(+ " + x + " " + y + ")"
		ex.arithCheck(i, t, i.Pos())
		ex.bind(i, t)
	case token.SUB:
		t := "(- " + x + " " + y + ")"
		ex.arithCheck(i, t, i.Pos())
		ex.bind(i, t)
	case token.MUL:
		t := "(* " + x + " " + y + ")"
		ex.arithCheck(i, t, i.Pos())
		ex.bind(i, t)
	case token.QUO:
		if ex.isFloat(xt) {
			ex.bind(i, "(/ "+x+" "+y+")")
			return
		}
		ex.nopanic("nopanic.div", i.Pos(), "(not (= "+y+" 0))", "division by zero")
		// Go truncated division
		ex.bind(i, ex.vc.truncDiv(x, y))
	case token.REM:
		ex.nopanic("nopanic.div", i.Pos(), "(not (= "+y+" 0))", "modulo by zero")
		ex.bind(i, ex.vc.truncRem(x, y))
	case token.EQL:
		ex.bind(i, sEq(x, y))
	case token.NEQ:
		ex.bind(i, sNot(sEq(x, y)))
	case token.LSS, token.LEQ, token.GTR, token.GEQ:
		op := map[token.Token]string{token.LSS: "<", token.LEQ: "<=", token.GTR: ">", token.GEQ: ">="}[i.Op]
		if ex.isStringy(xt) {
			ex.bind(i, ex.vc.strCmp(op, x, y))
			return
		}
		ex.bind(i, "("+op+" "+x+" "+y+")")
	case token.LAND:
		ex.bind(i, sAnd(x, y))
	case token.LOR:
		ex.bind(i, sOr(x, y))
	default:
		ex.vc.errorf("unsupported binary op %s at %s", i.Op, ex.vc.w.pos(i.Pos()))
		ex.vals[i] = Val{T: ex.vc.fresh(ex.pfx+i.Name(), ex.sortOfT(i.Type()))}
	}
}

func (vc *VC) truncDiv(x, y string) string {
	vc.declareOnce("fn:tdiv", "(define-fun tdiv ((a Int) (b Int)) Int (ite (>= a 0) (div a b) (- (div (- a) b))))")
	return "(tdiv " + x + " " + y + ")"
}

func (vc *VC) truncRem(x, y string) string {
	vc.declareOnce("fn:tdiv", "(define-fun tdiv ((a Int) (b Int)) Int (ite (>= a 0) (div a b) (- (div (- a) b))))")
	vc.declareOnce("fn:trem", "(define-fun trem ((a Int) (b Int)) Int (- a (* b (tdiv a b))))")
	return "(trem " + x + " " + y + ")"
}

func (ex *Exec) doSlice(i *ssa.Slice) {
	x := ex.val(i.X)
	lo, hi, mx := "", "", ""
	if i.Low != nil {
		lo = ex.val(i.Low).T
	}
	if i.High != nil {
		hi = ex.val(i.High).T
	}
	if i.Max != nil {
		mx = ex.val(i.Max).T
	}
	switch t := ex.typ(i.X.Type()).Underlying().(type) {
	case *types.Slice:
		if lo == "" {
			lo = "0"
		}
		if hi == "" {
			hi = "(slen_ " + x.T + ")"
		}
		capT := "(scap " + x.T + ")"
		cond := sAnd("(<= 0 "+lo+")", "(<= "+lo+" "+hi+")")
		if mx != "" {
			cond = sAnd(cond, "(<= "+hi+" "+mx+")", "(<= "+mx+" "+capT+")")
		} else {
			cond = sAnd(cond, "(<= "+hi+" "+capT+")")
		}
		ex.nopanic("nopanic.slice", i.Pos(), cond, "slice bounds in range")
		newCap := "(- " + capT + " " + lo + ")"
		if mx != "" {
			newCap = "(- " + mx + " " + lo + ")"
		}
		ex.bind(i, fmt.Sprintf("(mk_slice (sarr %s) (+ (soff %s) %s) (- %s %s) %s)", x.T, x.T, lo, hi, lo, newCap))
	case *types.Pointer:
		at := t.Elem().Underlying().(*types.Array)
		n := fmt.Sprint(at.Len())
		if lo == "" {
			lo = "0"
		}
		if hi == "" {
			hi = n
		}
		if !ex.knownNonNil(i.X) {
			ex.nilCheck(x, i.Pos())
		}
		ex.nopanic("nopanic.slice", i.Pos(), sAnd("(<= 0 "+lo+")", "(<= "+lo+" "+hi+")", "(<= "+hi+" "+n+")"), "slice bounds in range")
		ex.bind(i, fmt.Sprintf("(mk_slice %s %s (- %s %s) (- %s %s))", x.T, lo, hi, lo, n, lo))
	default:
		// string slicing
		if ex.isStringy(i.X.Type()) {
			if lo == "" {
				lo = "0"
			}
			if hi == "" {
				hi = "(slen " + x.T + ")"
			}
			ex.nopanic("nopanic.slice", i.Pos(), sAnd("(<= 0 "+lo+")", "(<= "+lo+" "+hi+")", "(<= "+hi+" (slen "+x.T+"))"), "string slice bounds in range")
			ex.bind(i, ex.vc.strSub(x.T, lo, hi))
			return
		}
		ex.vc.errorf("unsupported slice of %s", i.X.Type())
	}
}

func (ex *Exec) doMakeSlice(i *ssa.MakeSlice) {
	ln, cp := ex.val(i.Len).T, ex.val(i.Cap).T
	et := ex.typ(i.Type()).Underlying().(*types.Slice).Elem()
	ex.nopanic("nopanic.makeslice", i.Pos(), sAnd("(<= 0 "+ln+")", "(<= "+ln+" "+cp+")"), "make: len/cap in range")
	r := ex.newRef("mk")
	k, srt := ex.elemKey(et)
	as := "(Array Int (Array Int " + srt + "))"
	ex.set(ex.curState, k, as, sSto(ex.get(ex.curState, k, as), r, "((as const (Array Int "+srt+")) "+ex.vc.zeroOf(et)+")"))
	ex.bind(i, fmt.Sprintf("(mk_slice %s 0 %s %s)", r, ln, cp))
}

func (ex *Exec) doConvert(i *ssa.Convert) {
	from, to := ex.typ(i.X.Type()), ex.typ(i.Type())
	x := ex.val(i.X)
	switch {
	case ex.isStringy(from) && ex.isStringy(to):
		ex.vals[i] = x
	case ex.isNumeric(from) && ex.isNumeric(to):
		ff, tf := ex.sortOfT(from) == "Real", ex.sortOfT(to) == "Real"
		switch {
		case ff == tf:
			ex.vals[i] = x // integer narrowing is not modelled (assumption recorded)
			if !ff && !sameIntRange(from, to) {
				ex.vc.assumptions["integer conversion "+from.String()+"->"+to.String()+" treated as value-preserving"] = true
			}
		case tf:
			ex.bind(i, "(to_real "+x.T+")")
		default:
			ex.vc.declareOnce("fn:trunc", "(define-fun rtrunc ((a Real)) Int (ite (>= a 0.0) (to_int a) (- (to_int (- a)))))")
			ex.bind(i, "(rtrunc "+x.T+")")
		}
	default:
		ex.convertOther(i, from, to, x)
	}
}

func sameIntRange(a, b types.Type) bool {
	ba, ok1 := a.Underlying().(*types.Basic)
	bb, ok2 := b.Underlying().(*types.Basic)
	if !ok1 || !ok2 {
		return false
	}
	la, ha := intRange(ba)
	lb, hb := intRange(bb)
	return la == lb && ha == hb
}

func (ex *Exec) doMakeInterface(i *ssa.MakeInterface) {
	// interface value: box_<type>(payload): injective, non-nil, tagged with the dynamic type
	x := ex.val(i.X)
	fn, _ := ex.boxFn(i.X.Type())
	ex.bind(i, sApp(fn, x.T))
}

func (ex *Exec) isErrorLike(t types.Type) bool {
	return types.Identical(t, types.Universe.Lookup("error").Type())
}


// strInv: every string value is canonical (bytes are zero outside [0,len)) and of plausible length.
func (ex *Exec) strInv(term string) string {
	ex.vc.strPrelude()
	return "(and (<= 0 (slen " + term + ")) (<= (slen " + term + ") 72057594037927936) (str_wf " + term + "))"
}

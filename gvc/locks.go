package main

import "go/token"

// Permission checks for lock-guarded state (filled in by the concurrent mode).

func (ex *Exec) permCheck(compKey, ref string, write bool)           {}
func (ex *Exec) permCheckElem(compKey, arr string, write bool)       {}
func (ex *Exec) permCheckMap(mk mapKeys, m string, write bool)       {}
func (ex *Exec) afterAcquire(mu string, mode int, pos token.Pos)     {}
func (ex *Exec) beforeRelease(mu string, mode int, pos token.Pos)    {}
func (ex *Exec) lockCallProtocol(spec *FuncSpec, ev *Eval, pos token.Pos, name string) {}

func (ex *Exec) lockEntry(spec *FuncSpec, ev *Eval)                    {}
func (ex *Exec) lockExit(spec *FuncSpec, st *State, exitReach string) {}

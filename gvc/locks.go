package main

import (
	"fmt"
	"go/token"
	"go/types"
	"sort"
	"strings"

	"golang.org/x/tools/go/ssa"
)

// Lock protocol.
//
// A `lock <mutex expr> : none|R|W` clause states in which mode the function's caller holds that mutex, at
// entry and again at exit (balanced). A function without clauses is called with no container lock held.
// HELD : mutex address -> {0 free, 1 read-locked, 2 write-locked} (by the current call chain).

type lockClause struct {
	expr Expr
	mode int // 0 none, 1 R, 2 W
	text string
}

func parseLockClauses(spec *FuncSpec, vc *VC) []lockClause {
	var out []lockClause
	for _, c := range spec.Lock {
		k := strings.LastIndex(c.Text, ":")
		if k < 0 {
			vc.errorf("%s: lock clause needs '<mutex> : none|R|W'", c.Src)
			continue
		}
		e, err := parseExpr(c.Text[:k])
		if err != nil {
			vc.errorf("%s: %v", c.Src, err)
			continue
		}
		mode := -1
		switch strings.TrimSpace(c.Text[k+1:]) {
		case "none":
			mode = 0
		case "R":
			mode = 1
		case "W":
			mode = 2
		}
		if mode < 0 {
			vc.errorf("%s: lock mode must be none, R or W", c.Src)
			continue
		}
		out = append(out, lockClause{e, mode, c.Text})
	}
	return out
}

func (ev *Eval) mutexAddr(e Expr) string {
	x := ev.eval(e)
	return x.T
}

func (ex *Exec) lockEntry(spec *FuncSpec, ev *Eval) {
	held := "((as const (Array Int Int)) 0)"
	for _, lc := range parseLockClauses(spec, ex.vc) {
		if lc.mode > 0 {
			held = sSto(held, ev.mutexAddr(lc.expr), fmt.Sprint(lc.mode))
		}
	}
	ex.heldEntry = held
	if ex.vc.conc {
		ex.set(ex.curState, "WROTE", "Bool", "false")
		ex.set(ex.curState, "SECW", "Bool", "false")
	}
}

// useHeld: the entry fact about HELD is only emitted in functions that touch a lock at all (a constant-array
// equality in every query slows the solvers down for nothing).
func (ex *Exec) useHeld() {
	top := ex
	for top.parent != nil {
		top = top.parent
	}
	if top.heldEntry != "" && !top.heldEmitted {
		top.heldEmitted = true
		top.vc.declareOnce("comp:HELD", "(declare-const c0_HELD (Array Int Int))")
		top.vc.compSort["HELD"] = "(Array Int Int)"
		top.vc.decls = append(top.vc.decls, "(assert (= c0_HELD "+top.heldEntry+"))")
	}
}

func (ex *Exec) lockExit(spec *FuncSpec, st *State, exitReach string) {
	if _, used := st.m["HELD"]; !used {
		return
	}
	ex.vc.oblige("lock.balanced", "lock", ex.fn.Pos(), exitReach, sEq(ex.get(st, "HELD", "(Array Int Int)"), ex.get(newState(), "HELD", "(Array Int Int)")),
		"every lock taken is released on every path, and nothing the caller holds is released")
}

// lockCallProtocol: the caller must hold the callee's mutexes exactly as the callee's lock clauses say.
func (ex *Exec) lockCallProtocol(spec *FuncSpec, ev *Eval, pos token.Pos, name string) {
	if len(spec.Lock) == 0 {
		return
	}
	ex.useHeld()
	held := ex.get(ex.curState, "HELD", "(Array Int Int)")
	for _, lc := range parseLockClauses(spec, ex.vc) {
		cur := sSel(held, ev.mutexAddr(lc.expr))
		switch lc.mode {
		case 0:
			ex.vc.oblige("lock.call."+name+".free", "lock", pos, ex.curReach, sEq(cur, "0"), "callee "+name+" acquires "+strings.TrimSpace(lc.text)+": it must not be held here (self-deadlock)")
		case 1, 2:
			// an object created during this call and not yet published is thread-local: its lock need not be held
			local := sNot(sSel(ex.get(ex.entry, "alloc", "(Array Int Bool)"), "(rootOf "+ev.mutexAddr(lc.expr)+")"))
			need := "(>= " + cur + " 1)"
			if lc.mode == 2 {
				need = sEq(cur, "2")
			}
			ex.vc.oblige("lock.call."+name+".held", "lock", pos, ex.curReach, sOr(need, local), "callee "+name+" needs "+strings.TrimSpace(lc.text)+" (or an object that is still local to this call)")
		}
	}
}

// ---------------------------------------------------------------- concurrent mode
//
// `guards pkg.Type.mu : f, elems(f), map(f)` declares which fields of an object (and which backing arrays / maps
// reached through them) may only be touched while that object's mutex is held: shared for reads, exclusive for
// writes. Objects created during the call are local until published and need no lock. At every acquisition the
// guarded state of the objects behind that mutex is havocked down to the type's `lockinv` (another goroutine
// may have run), `old()` is re-bound to that state, and at every release the invariant is an obligation. A
// proof done under this regime holds for every interleaving of the callers.

type guardedType struct {
	key     string // pkg.Type
	named   *types.Named
	st      *types.Struct
	muIdx   int
	muIsPtr bool
	muPath  []string // mutex reached through a path of fields (e.g. cond.L): the lock is the value found there
	allOf   []string // `all pkg.Type`: every field of every object of that struct type is guarded by the owner's mutex
	fields  map[int]bool // guarded scalar fields (by index)
	elems   map[int]bool // fields whose backing array is guarded
	maps    map[int]bool // fields whose map contents are guarded
}

func (w *World) lookupNamed(key string) *types.Named {
	k := strings.Index(key, ".")
	if k < 0 {
		return nil
	}
	for _, p := range w.Pkgs {
		if p.Types != nil && p.Types.Name() == key[:k] && strings.HasPrefix(p.PkgPath, modulePath) {
			if tn, ok := p.Types.Scope().Lookup(key[k+1:]).(*types.TypeName); ok {
				if n, ok := tn.Type().(*types.Named); ok {
					return n
				}
			}
		}
	}
	return nil
}

func (vc *VC) guardTable() map[string]*guardedType {
	if vc.guardTab != nil {
		return vc.guardTab
	}
	vc.guardTab = map[string]*guardedType{}
	for _, g := range vc.w.Contracts.Guards {
		k := strings.LastIndex(g.Mutex, ".")
		if k < 0 {
			vc.errorf("%s: guards needs pkg.Type.mutexfield", g.Src)
			continue
		}
		tkey, mf := g.Mutex[:k], g.Mutex[k+1:]
		var path []string
		if parts := strings.Split(g.Mutex, "."); len(parts) > 3 {
			// pkg.Type.f1.f2...: a mutex reached through a path of fields
			tkey, mf = parts[0]+"."+parts[1], parts[2]
			path = parts[2:]
		}
		n := vc.w.lookupNamed(tkey)
		if n == nil {
			vc.errorf("%s: unknown type %s", g.Src, tkey)
			continue
		}
		st, _ := n.Underlying().(*types.Struct)
		if st == nil {
			continue
		}
		gt := &guardedType{key: tkey, named: n, st: st, muIdx: -1, fields: map[int]bool{}, elems: map[int]bool{}, maps: map[int]bool{}}
		idx := func(name string) int {
			for i := 0; i < st.NumFields(); i++ {
				if st.Field(i).Name() == name {
					return i
				}
			}
			return -1
		}
		gt.muIdx = idx(mf)
		if gt.muIdx < 0 {
			vc.errorf("%s: no field %s in %s", g.Src, mf, tkey)
			continue
		}
		_, gt.muIsPtr = st.Field(gt.muIdx).Type().Underlying().(*types.Pointer)
		gt.muPath = path
		for _, l := range g.Locs {
			switch {
			case strings.HasPrefix(l, "all "):
				gt.allOf = append(gt.allOf, strings.TrimSpace(l[4:]))
			case strings.HasPrefix(l, "elems(") && strings.HasSuffix(l, ")"):
				if i := idx(l[6 : len(l)-1]); i >= 0 {
					gt.elems[i] = true
				}
			case strings.HasPrefix(l, "map(") && strings.HasSuffix(l, ")"):
				if i := idx(l[4 : len(l)-1]); i >= 0 {
					gt.maps[i] = true
				}
			default:
				if i := idx(l); i >= 0 {
					gt.fields[i] = true
				} else {
					vc.errorf("%s: no field %s in %s", g.Src, l, tkey)
				}
			}
		}
		vc.guardTab[tkey] = gt
	}
	return vc.guardTab
}

// muOf: the address of the mutex guarding object o of guarded type gt (in state st).
func (ex *Exec) muOf(gt *guardedType, o string, st *State) string {
	if len(gt.muPath) > 1 {
		cur := o
		var t types.Type = gt.named
		for _, fname := range gt.muPath {
			n, s := structOf(t)
			if s == nil {
				return "0"
			}
			found := false
			for i := 0; i < s.NumFields(); i++ {
				if s.Field(i).Name() == fname {
					k, srt, ft := ex.fieldKey(n, s, i)
					cur = sSel(ex.get(st, k, "(Array Int "+srt+")"), cur)
					t = ft
					if p, ok := ft.Underlying().(*types.Pointer); ok {
						t = p.Elem()
					}
					found = true
					break
				}
			}
			if !found {
				return "0"
			}
		}
		return cur
	}
	if !gt.muIsPtr {
		return fmt.Sprintf("(sub %s %d)", o, gt.muIdx)
	}
	k, srt, _ := ex.fieldKey(gt.named, gt.st, gt.muIdx)
	return sSel(ex.get(st, k, "(Array Int "+srt+")"), o)
}

func (ex *Exec) topExec() *Exec {
	t := ex
	for t.parent != nil {
		t = t.parent
	}
	return t
}

// localObj: o was allocated during this call (not yet visible to other goroutines).
func (ex *Exec) localObj(o string) string {
	return sNot(sSel("c0_alloc", "(rootOf "+o+")"))
}

func (ex *Exec) heldAt(mu string) string {
	ex.useHeld()
	return sSel(ex.get(ex.curState, "HELD", "(Array Int Int)"), mu)
}

// owners: the objects of guarded type gt this activation can name (receiver, parameters, values computed so far).
func (ex *Exec) owners(gt *guardedType) []string {
	seen := map[string]bool{}
	var out []string
	add := func(v ssa.Value, val Val) {
		if val.T == "" {
			return
		}
		pt, ok := ex.typ(v.Type()).Underlying().(*types.Pointer)
		if !ok {
			return
		}
		n, _ := types.Unalias(pt.Elem()).(*types.Named)
		if n == nil || namedKey(n) != gt.key {
			return
		}
		if !seen[val.T] {
			seen[val.T] = true
			out = append(out, val.T)
		}
	}
	for e := ex; e != nil; e = e.parent {
		for v, val := range e.vals {
			add(v, val)
		}
		// ghost parameters of the guarded type (helpers that work on nodes name the owning instance this way)
		for _, tv := range e.ghostArgs {
			if tv.Ty.Go == nil {
				continue
			}
			if pt, ok := tv.Ty.Go.Underlying().(*types.Pointer); ok {
				if n, _ := types.Unalias(pt.Elem()).(*types.Named); n != nil && namedKey(n) == gt.key && !seen[tv.T] {
					seen[tv.T] = true
					out = append(out, tv.T)
				}
			}
		}
	}
	sort.Strings(out)
	return out
}

func (ex *Exec) permNeed(mu string, write bool) string {
	if write {
		return sEq(ex.heldAt(mu), "2")
	}
	return "(>= " + ex.heldAt(mu) + " 1)"
}

func (ex *Exec) notePerm() {
	ex.vc.assumptions["lock discipline => data-race freedom: every access to guarded state happens with the guarding mutex held in a sufficient mode (Go memory model, sync.RWMutex semantics); objects of one guarded type do not share backing arrays or maps (encapsulation)"] = true
}

func (ex *Exec) permCheck(compKey, ref string, write bool) {
	if !ex.vc.conc || ex.vc.scratch || ex.vc.discover {
		return
	}
	for _, tk := range sortedGuardKeys(ex.vc.guardTable()) {
		gt := ex.vc.guardTable()[tk]
		for _, tn := range gt.allOf {
			if !strings.HasPrefix(compKey, "F:"+tn+".") {
				continue
			}
			// a field of an object owned by some instance of gt: one of the instances this activation can name
			// must be locked in a sufficient mode (or the object is still local to this call)
			var hs []string
			for _, o := range ex.owners(gt) {
				hs = append(hs, sOr(ex.localObj(o), ex.permNeed(ex.muOf(gt, o, ex.curState), write)))
			}
			if len(hs) == 0 {
				continue // no instance of the owning type is in sight: the object belongs to something else
			}
			ex.notePerm()
			kind := "perm.read"
			if write {
				kind = "perm.write"
				ex.noteGuardedWrite()
			}
			ex.vc.oblige(fmt.Sprintf("%s[%s of %s]", kind, strings.TrimPrefix(shortKey(compKey), "F:"), gt.key), "perm", ex.curPos(), ex.curReach,
				sOr(ex.localObj(ref), sOr(hs...)), "access to a field of a "+tn+" needs the mutex of the "+gt.key+" that owns it")
		}
	}
	for _, gt := range ex.vc.guardTable() {
		for fi := range gt.fields {
			k, _, _ := ex.fieldKey(gt.named, gt.st, fi)
			if k != compKey {
				continue
			}
			ex.notePerm()
			kind := "perm.read"
			if write {
				kind = "perm.write"
				ex.noteGuardedWrite()
			}
			ex.vc.oblige(fmt.Sprintf("%s[%s.%s]", kind, gt.key, fieldName(gt.st, fi)), "perm", ex.curPos(), ex.curReach,
				sOr(ex.localObj(ref), ex.permNeed(ex.muOf(gt, ref, ex.curState), write)),
				fmt.Sprintf("access to %s.%s needs the object's mutex (%s)", gt.key, fieldName(gt.st, fi), map[bool]string{true: "exclusive", false: "shared"}[write]))
		}
	}
}

func (ex *Exec) curPos() token.Pos {
	if ex.curBlock != nil && ex.curIdx < len(ex.curBlock.Instrs) {
		return ex.curBlock.Instrs[ex.curIdx].Pos()
	}
	return ex.fn.Pos()
}

func (ex *Exec) permCheckElem(compKey, arr string, write bool) {
	if !ex.vc.conc || ex.vc.scratch || ex.vc.discover {
		return
	}
	for _, tk := range sortedGuardKeys(ex.vc.guardTable()) {
		gt := ex.vc.guardTable()[tk]
		for fi := range gt.elems {
			sl, ok := gt.st.Field(fi).Type().Underlying().(*types.Slice)
			if !ok {
				continue
			}
			k, _ := ex.elemKey(ex.typ(sl.Elem()))
			if sl2, ok2 := ex.instField(gt, fi).Underlying().(*types.Slice); ok2 {
				k, _ = ex.elemKey(sl2.Elem())
			}
			if k != compKey {
				continue
			}
			var cs []string
			fk, fs, _ := ex.fieldKeyInst(gt, fi)
			// a slice the caller passed in is the caller's: it does not alias a container's guarded array (encapsulation)
			callerOwned := "false"
			if top := ex.topExec(); !write {
				var ps []string
				for _, p := range top.fn.Params {
					if _, ok := top.typ(p.Type()).Underlying().(*types.Slice); ok {
						ps = append(ps, sEq(arr, "(sarr "+top.vals[p].T+")"))
					}
				}
				callerOwned = sOr(ps...)
			}
			for _, o := range ex.owners(gt) {
				own := sEq(arr, "(sarr "+sSel(ex.get(ex.curState, fk, "(Array Int "+fs+")"), o)+")")
				cs = append(cs, sImp(sAnd(own, sNot(sEq(arr, "0")), sNot(ex.localObj(o)), sNot(callerOwned)), ex.permNeed(ex.muOf(gt, o, ex.curState), write)))
			}
			if len(cs) == 0 {
				continue
			}
			ex.notePerm()
			kind := "perm.read"
			if write {
				kind = "perm.write"
				ex.noteGuardedWrite()
			}
			ex.vc.oblige(fmt.Sprintf("%s[elems %s.%s]", kind, gt.key, fieldName(gt.st, fi)), "perm", ex.curPos(), ex.curReach, sAnd(cs...),
				fmt.Sprintf("access to the backing array of %s.%s needs the owner's mutex", gt.key, fieldName(gt.st, fi)))
		}
	}
}

func (ex *Exec) permCheckMap(mk mapKeys, m string, write bool) {
	if !ex.vc.conc || ex.vc.scratch || ex.vc.discover {
		return
	}
	for _, tk := range sortedGuardKeys(ex.vc.guardTable()) {
		gt := ex.vc.guardTable()[tk]
		for fi := range gt.maps {
			mt, ok := ex.instField(gt, fi).Underlying().(*types.Map)
			if !ok || ex.mapComps(mt).dom != mk.dom {
				continue
			}
			var cs []string
			fk, fs, _ := ex.fieldKeyInst(gt, fi)
			for _, o := range ex.owners(gt) {
				own := sEq(m, sSel(ex.get(ex.curState, fk, "(Array Int "+fs+")"), o))
				cs = append(cs, sImp(sAnd(own, sNot(sEq(m, "0")), sNot(ex.localObj(o))), ex.permNeed(ex.muOf(gt, o, ex.curState), write)))
			}
			if len(cs) == 0 {
				continue
			}
			ex.notePerm()
			kind := "perm.read"
			if write {
				kind = "perm.write"
				ex.noteGuardedWrite()
			}
			ex.vc.oblige(fmt.Sprintf("%s[map %s.%s]", kind, gt.key, fieldName(gt.st, fi)), "perm", ex.curPos(), ex.curReach, sAnd(cs...),
				fmt.Sprintf("access to the map %s.%s needs the owner's mutex", gt.key, fieldName(gt.st, fi)))
		}
	}
}

func sortedGuardKeys(m map[string]*guardedType) []string {
	var ks []string
	for k := range m {
		ks = append(ks, k)
	}
	sort.Strings(ks)
	return ks
}

// instField: the type of field fi of the guarded type as instantiated in the function under verification
// (type parameters of the named type mapped to the like-named type parameters in scope).
func (ex *Exec) instField(gt *guardedType, fi int) types.Type {
	ev := ex.topExec().newEval(ex.curState, ex.curState)
	if _, st := structOf(ev.instNamed(gt.named)); st != nil && fi < st.NumFields() {
		return st.Field(fi).Type()
	}
	return gt.st.Field(fi).Type()
}

func (ex *Exec) fieldKeyInst(gt *guardedType, fi int) (string, string, types.Type) {
	ev := ex.topExec().newEval(ex.curState, ex.curState)
	if n, st := structOf(ev.instNamed(gt.named)); st != nil {
		return ex.fieldKey(n, st, fi)
	}
	return ex.fieldKey(gt.named, gt.st, fi)
}

func (ex *Exec) noteGuardedWrite() {
	st := ex.curState
	ex.set(st, "SECW", "Bool", "true")
}

// afterAcquire: another goroutine may have changed everything this mutex guards.
func (ex *Exec) afterAcquire(mu string, mode int, pos token.Pos) {
	if !ex.vc.conc || ex.vc.scratch {
		return
	}
	ex.concEnterSection(mu, pos, true)
}

func (ex *Exec) concEnterSection(mu string, pos token.Pos, rebind bool) {
	vc := ex.vc
	st := ex.curState
	ex.set(st, "SECTION", "Int", "(+ "+ex.get(st, "SECTION", "Int")+" 1)")
	top := ex.topExec()
	if (vc.spec == nil || vc.spec.Opts["multi-section"] == "") && !ex.noLpCheck {
		vc.oblige("lp.single-writer", "lp", pos, ex.curReach, sOr(ex.sectionLocal(mu), sNot(ex.get(st, "WROTE", "Bool"))),
			"no earlier critical section of this call wrote guarded state (the operation takes effect in one section)")
	}
	for _, tk := range sortedGuardKeys(vc.guardTable()) {
		gt := vc.guardTable()[tk]
		if tk != ex.curMuOwner && !(ex.curMuOwner == "*" && len(gt.muPath) > 1) {
			continue // this mutex is not the mutex field of that type
		}
		owners := ex.owners(gt)
		if !gt.muIsPtr && len(gt.muPath) <= 1 {
			// the object the mutex is embedded in is an owner even if this activation has not named it yet
			o := "(subOf " + mu + ")"
			dup := false
			for _, x := range owners {
				if x == o {
					dup = true
				}
			}
			if !dup {
				owners = append(owners, o)
			}
		}
		all := map[int]bool{}
		for fi := range gt.fields {
			all[fi] = true
		}
		for fi := range gt.elems {
			all[fi] = true
		}
		for fi := range gt.maps {
			all[fi] = true
		}
		var fis []int
		for fi := range all {
			fis = append(fis, fi)
		}
		sort.Ints(fis)
		for _, fi := range fis {
			if !gt.fields[fi] {
				continue
			}
			if ft := ex.instField(gt, fi); isAggregate(ft) {
				// a struct stored by value: its leaves live at the sub-object address (sub o fi)
				for _, o := range owners {
					behind := sAnd(sEq(ex.muOf(gt, o, st), mu), sNot(ex.localObj(o)))
					ex.havocAggregate(st, fmt.Sprintf("(sub %s %d)", o, fi), ft, behind)
				}
				continue
			}
			k, srt, _ := ex.fieldKeyInst(gt, fi)
			as := "(Array Int " + srt + ")"
			cur := ex.get(st, k, as)
			h := vc.fresh("acq_"+k, as)
			// only objects behind this mutex (and not local to this call) change
			vc.assume(fmt.Sprintf("(forall ((r Int)) (! (=> (or (not (= %s %s)) (not (select c0_alloc (rootOf r)))) (= (select %s r) (select %s r))) :pattern ((select %s r))))",
				ex.muOf(gt, "r", st), mu, h, cur, h))
			ex.set(st, k, as, h)
			if f := memInv(k, as, h, ex.get(st, "alloc", "(Array Int Bool)")); f != "" {
				vc.assume(f)
			}
		}
		for _, o := range owners {
			behind := sAnd(sEq(ex.muOf(gt, o, st), mu), sNot(ex.localObj(o)))
			for _, fi := range fis {
				fk, fs, _ := ex.fieldKeyInst(gt, fi)
				fv := sSel(ex.get(st, fk, "(Array Int "+fs+")"), o)
				if gt.elems[fi] {
					if sl, ok := ex.instField(gt, fi).Underlying().(*types.Slice); ok {
						ek, es := ex.elemKey(sl.Elem())
						as := "(Array Int (Array Int " + es + "))"
						cur := ex.get(st, ek, as)
						fresh := vc.fresh("acq_"+ek, "(Array Int "+es+")")
						nv := vc.fresh("acq_"+ek, as)
						vc.assume(sEq(nv, sIte(sAnd(behind, sNot(sEq("(sarr "+fv+")", "0"))), sSto(cur, "(sarr "+fv+")", fresh), cur)))
						ex.set(st, ek, as, nv)
						if f := memInv(ek, as, nv, ex.get(st, "alloc", "(Array Int Bool)")); f != "" {
							vc.assume(f)
						}
					}
				}
				if gt.maps[fi] {
					if mt, ok := ex.instField(gt, fi).Underlying().(*types.Map); ok {
						mk := ex.mapComps(mt)
						for _, c := range [][2]string{{mk.dom, mk.domS}, {mk.val, mk.valS}, {mk.card, "(Array Int Int)"}} {
							cur := ex.get(st, c[0], c[1])
							fresh := vc.fresh("acq_"+c[0], c[1])
							nv := vc.fresh("acq_"+c[0], c[1])
							vc.assume(sEq(nv, sIte(sAnd(behind, sNot(sEq(fv, "0"))), sSto(cur, fv, sSel(fresh, fv)), cur)))
							ex.set(st, c[0], c[1], nv)
							if f := memInv(c[0], c[1], nv, ex.get(st, "alloc", "(Array Int Bool)")); f != "" {
								vc.assume(f)
							}
						}
					}
				}
			}
		}
		// objects of the `all T` types owned by an instance behind this mutex may have changed arbitrarily
		if len(gt.allOf) > 0 {
			var anyBehind []string
			for _, o := range owners {
				anyBehind = append(anyBehind, sAnd(sEq(ex.muOf(gt, o, st), mu), sNot(ex.localObj(o))))
			}
			cond := vc.define("acq_any", "Bool", sOr(anyBehind...))
			for _, key := range sortedKeys(vc.compKeys()) {
				for _, tn := range gt.allOf {
					if strings.HasPrefix(key, "F:"+tn+".") {
						srt := vc.compSort[key]
						cur := ex.get(st, key, srt)
						h := vc.fresh("acq_"+key, srt)
						vc.assume(fmt.Sprintf("(forall ((r Int)) (! (=> (or (not %s) (not (select c0_alloc (rootOf r)))) (= (select %s r) (select %s r))) :pattern ((select %s r))))", cond, h, cur, h))
						ex.set(st, key, srt, h)
						if f := memInv(key, srt, h, ex.get(st, "alloc", "(Array Int Bool)")); f != "" {
							vc.assume(f)
						}
					}
				}
			}
			// the ghost views passed as ghost parameters describe the structure as it is now: choose them afresh
			if ex.parent == nil && len(top.ghostArgs) > 0 && rebind {
				for name, tv := range top.ghostArgs {
					top.ghostArgs[name] = TV{T: vc.fresh("acq_gp_"+name, vc.vtSort(tv.Ty)), Ty: tv.Ty}
				}
			}
		}
		// the type's lock invariant holds for every object behind the mutex
		if inv := vc.w.Contracts.LockInvs[gt.key]; inv != nil {
			for _, o := range owners {
				ev := top.newEval(st, st)
				top.bindParams(ev)
				ev.pkg = gt.named.Obj().Pkg()
				ev.vars["self"] = TV{T: o, Ty: goVT(types.NewPointer(ev.instNamed(gt.named)))}
				behind := sAnd(sEq(ex.muOf(gt, o, st), mu), sNot(ex.localObj(o)))
				vc.assume(sImp(ex.curReach, sImp(behind, ev.evalBool(inv.Expr))))
			}
		}
	}
	ex.set(st, "SECW", "Bool", "false")
	if rebind {
		// old() now means: the state at this acquisition -- unless the mutex is local to this call (nobody else can
		// hold it, nothing was havocked, and the operation is not a critical section of a shared object)
		loc := ex.sectionLocal(mu)
		rebound := func() *State {
			prev := st.old
			if prev == nil {
				prev = top.entry
			}
			ns := newState()
			ns.rebound = true
			keys := map[string]bool{}
			for k := range st.m {
				keys[k] = true
			}
			for k := range prev.m {
				keys[k] = true
			}
			for _, k := range sortedKeys(keys) {
				srt := vc.compSort[k]
				if srt == "" {
					continue
				}
				ns.m[k] = vc.define("old_"+k, srt, sIte(loc, ex.get(prev, k, srt), ex.get(st, k, srt)))
			}
			return ns
		}
		if spec := vc.spec; spec != nil && ex.parent == nil && spec.Opts["multi-section"] == "" {
			// ghost initialisers and entry lemmas speak about "the state the operation starts from": redo them here
			mk := func() *Eval {
				e := top.newEval(st, st)
				top.bindParams(e)
				e.point = &progPoint{block: top.curBlock, idx: top.curIdx}
				return e
			}
			for _, g := range spec.Ghosts {
				if g.Init != nil {
					ev := mk()
					iv := ev.rval(ev.eval(g.Init))
					srt := vc.vtSort(vc.ghostSort[g.Name])
					ex.set(st, "G:"+g.Name, srt, sIte(loc, ex.get(st, "G:"+g.Name, srt), iv.T))
				}
			}
			top.acqCount++
			for k, lm := range spec.Lemmas {
				ex.proveLemma(fmt.Sprintf("lemma[%d].section%d", k+1, top.acqCount), lm, mk, sAnd(ex.curReach, sNot(loc)))
			}
		}
		st.old = rebound()
	}
}

// beforeRelease: the invariant must hold again when the lock is given up.
func (ex *Exec) beforeRelease(mu string, mode int, pos token.Pos) {
	if !ex.vc.conc || ex.vc.scratch {
		return
	}
	ex.concLeaveSection(mu, pos)
}

func (ex *Exec) concLeaveSection(mu string, pos token.Pos) {
	vc := ex.vc
	st := ex.curState
	top := ex.topExec()
	for _, tk := range sortedGuardKeys(vc.guardTable()) {
		gt := vc.guardTable()[tk]
		if tk != ex.curMuOwner && !(ex.curMuOwner == "*" && len(gt.muPath) > 1) {
			continue
		}
		if inv := vc.w.Contracts.LockInvs[gt.key]; inv != nil {
			os := ex.owners(gt)
			if !gt.muIsPtr && len(gt.muPath) <= 1 {
				os = append(os, "(subOf "+mu+")")
			}
			for _, o := range os {
				ev := top.newEval(st, top.entry)
				top.bindParams(ev)
				if vc.spec != nil && vc.spec.Opts["release-views"] != "" {
					for _, part := range strings.Split(vc.spec.Opts["release-views"], ";") {
						if eq := strings.Index(part, "="); eq > 0 {
							if e, err := parseExpr(part[eq+1:]); err == nil {
								ev2 := top.newEval(st, top.entry)
								top.bindParams(ev2)
								ev.vars[strings.TrimSpace(part[:eq])] = ev2.rval(ev2.eval(e))
							} else {
								vc.errorf("release-views: %v", err)
							}
						}
					}
				}
				ev.pkg = gt.named.Obj().Pkg()
				ev.vars["self"] = TV{T: o, Ty: goVT(types.NewPointer(ev.instNamed(gt.named)))}
				behind := sAnd(sEq(ex.muOf(gt, o, st), mu), sNot(ex.localObj(o)))
				vc.oblige("lockinv.release["+gt.key+"]", "perm", pos, ex.curReach, sImp(behind, ev.evalBool(inv.Expr)),
					"the lock invariant of "+gt.key+" holds when its mutex is released (the instance stays usable)")
			}
		}
	}
	ex.set(st, "WROTE", "Bool", sOr(ex.get(st, "WROTE", "Bool"), ex.get(st, "SECW", "Bool")))
	ex.set(st, "SECW", "Bool", "false")
}

// escapeCheck: a reference handed back to the caller must not alias guarded memory.
func (ex *Exec) escapeCheck(results []ssa.Value, pos token.Pos) {
	if !ex.vc.conc || ex.vc.scratch || ex.vc.discover || ex.parent != nil {
		return
	}
	for _, rv := range results {
		v := ex.val(rv)
		if v.T == "" {
			continue
		}
		t := ex.typ(rv.Type())
		for _, tk := range sortedGuardKeys(ex.vc.guardTable()) {
			gt := ex.vc.guardTable()[tk]
			var cs []string
			for _, o := range ex.owners(gt) {
				for fi := range gt.elems {
					if _, ok := t.Underlying().(*types.Slice); ok && types.Identical(ex.instField(gt, fi), t) {
						fk, fs, _ := ex.fieldKeyInst(gt, fi)
						fv := sSel(ex.get(ex.curState, fk, "(Array Int "+fs+")"), o)
						cs = append(cs, sOr(ex.localObj(o), sEq("(sarr "+v.T+")", "0"), sNot(sEq("(sarr "+v.T+")", "(sarr "+fv+")"))))
					}
				}
				for fi := range gt.maps {
					if _, ok := t.Underlying().(*types.Map); ok && types.Identical(ex.instField(gt, fi), t) {
						fk, fs, _ := ex.fieldKeyInst(gt, fi)
						fv := sSel(ex.get(ex.curState, fk, "(Array Int "+fs+")"), o)
						cs = append(cs, sOr(ex.localObj(o), sEq(v.T, "0"), sNot(sEq(v.T, fv))))
					}
				}
			}
			if len(cs) > 0 {
				ex.vc.oblige("escape.result["+gt.key+"]", "perm", pos, ex.curReach, sAnd(cs...),
					"a slice or map returned to the caller does not alias memory guarded by the mutex of "+gt.key+" (reading it later would race with writers)")
			}
		}
	}
}

// concCallEnter / concCallLeave: in concurrent mode a call to a function that takes an object's mutex itself is a
// critical section of its own: the guarded state is havocked before it (the callee's contract then relates the
// state at its acquisition to the state at its release), and counts as a writing section if the callee modifies.
func (ex *Exec) concCallEnter(spec *FuncSpec, ev *Eval, pos token.Pos) {
	if !ex.vc.conc || ex.vc.scratch || len(spec.Lock) == 0 {
		return
	}
	for _, lc := range parseLockClauses(spec, ex.vc) {
		if lc.mode == 0 {
			ex.useHeld()
			ex.curMuOwner = ev.fieldOwnerType(lc.expr)
			ex.concEnterSection(ev.mutexAddr(lc.expr), pos, true)
		}
	}
}

func (ex *Exec) concCallLeave(spec *FuncSpec) {
	if !ex.vc.conc || ex.vc.scratch || len(spec.Lock) == 0 {
		return
	}
	for _, lc := range parseLockClauses(spec, ex.vc) {
		if lc.mode == 0 {
			st := ex.curState
			wrote := "false"
			for _, m := range spec.Modifies {
				if strings.TrimSpace(m.Text) != "" && strings.TrimSpace(m.Text) != "nothing" {
					wrote = "true"
				}
			}
			ex.set(st, "WROTE", "Bool", sOr(ex.get(st, "WROTE", "Bool"), wrote))
		}
	}
}

// fieldOwnerType: for an expression x.f (possibly through embedded fields), the named struct type that declares f.
func (ev *Eval) fieldOwnerType(e Expr) string {
	fe, ok := e.(EField)
	if !ok {
		return ""
	}
	x := ev.eval(fe.X)
	if x.Ty.Kind != "go" || x.Ty.Go == nil {
		return ""
	}
	t := x.Ty.Go
	_, path, _ := types.LookupFieldOrMethod(t, true, ev.pkgForLookup(t), fe.Name)
	if len(path) == 0 {
		return ""
	}
	cur := t
	for _, fi := range path[:len(path)-1] {
		if p, ok := cur.Underlying().(*types.Pointer); ok {
			cur = p.Elem()
		}
		_, st := structOf(cur)
		if st == nil {
			return ""
		}
		cur = st.Field(fi).Type()
	}
	if p, ok := cur.Underlying().(*types.Pointer); ok {
		cur = p.Elem()
	}
	if n, ok := types.Unalias(cur).(*types.Named); ok {
		return namedKey(n)
	}
	return ""
}

// sectionLocal: the mutex guards no object that other goroutines can see: every object of a guarded type that
// this activation can name and that sits behind this mutex was created during the call.
func (ex *Exec) sectionLocal(mu string) string {
	var cs []string
	for _, tk := range sortedGuardKeys(ex.vc.guardTable()) {
		gt := ex.vc.guardTable()[tk]
		if tk != ex.curMuOwner && !(ex.curMuOwner == "*" && len(gt.muPath) > 1) {
			continue
		}
		os := ex.owners(gt)
		if !gt.muIsPtr && len(gt.muPath) <= 1 {
			os = append(os, "(subOf "+mu+")")
		}
		for _, o := range os {
			cs = append(cs, sImp(sEq(ex.muOf(gt, o, ex.curState), mu), ex.localObj(o)))
		}
	}
	return ex.vc.define("sec_local", "Bool", sAnd(cs...))
}

// havocAggregate: every leaf of the by-value struct at ref takes an arbitrary value if cond holds.
func (ex *Exec) havocAggregate(st *State, ref string, t types.Type, cond string) {
	n, s := structOf(ex.typ(t))
	if s == nil {
		return
	}
	for i := 0; i < s.NumFields(); i++ {
		ft := s.Field(i).Type()
		if isAggregate(ft) {
			ex.havocAggregate(st, fmt.Sprintf("(sub %s %d)", ref, i), ft, cond)
			continue
		}
		k, srt, _ := ex.fieldKey(n, s, i)
		as := "(Array Int " + srt + ")"
		cur := ex.get(st, k, as)
		fresh := ex.vc.fresh("acq_"+k, srt)
		ex.set(st, k, as, sIte(cond, sSto(cur, ref, fresh), cur))
	}
}

// concCalleeFootprint: a callee under contract that works on objects of an `all T` type of some guarded type (the
// list under a linked queue, the nodes under a tree) reads them, and writes them if its modifies clause names a
// field of such a type: the caller must hold the owner's mutex in the corresponding mode (or the owner is local).
func (ex *Exec) concCalleeFootprint(spec *FuncSpec, callee *ssa.Function, ev *Eval, pos token.Pos) {
	if !ex.vc.conc || ex.vc.scratch || ex.vc.discover || spec == nil || len(spec.Lock) > 0 {
		return
	}
	for _, tk := range sortedGuardKeys(ex.vc.guardTable()) {
		gt := ex.vc.guardTable()[tk]
		if len(gt.allOf) == 0 {
			continue
		}
		touches := false
		for _, p := range callee.Params {
			if pt, ok := p.Type().Underlying().(*types.Pointer); ok {
				if n, _ := types.Unalias(pt.Elem()).(*types.Named); n != nil {
					for _, tn := range gt.allOf {
						if namedKey(n) == tn {
							touches = true
						}
					}
				}
			}
		}
		if !touches {
			continue
		}
		write := false
		nerr := len(ex.vc.errs)
		saved := ex.vc.scratch
		ex.vc.scratch = true
		for _, m := range spec.Modifies {
			for _, loc := range splitTop(m.Text, ',') {
				loc = strings.TrimSpace(loc)
				if loc == "" || loc == "nothing" || loc == "alloc" {
					continue
				}
				for _, tg := range ev.modTargets(loc) {
					for _, tn := range gt.allOf {
						if strings.HasPrefix(tg.key, "F:"+tn+".") {
							write = true
						}
					}
				}
			}
		}
		ex.vc.scratch = saved
		ex.vc.errs = ex.vc.errs[:nerr]
		var hs []string
		for _, o := range ex.owners(gt) {
			hs = append(hs, sOr(ex.localObj(o), ex.permNeed(ex.muOf(gt, o, ex.curState), write)))
		}
		if len(hs) == 0 {
			continue
		}
		ex.notePerm()
		kind := "perm.read"
		if write {
			kind = "perm.write"
			ex.noteGuardedWrite()
		}
		ex.vc.oblige(fmt.Sprintf("%s[call %s of %s]", kind, callee.Name(), gt.key), "perm", pos, ex.curReach, sOr(hs...),
			"callee "+callee.Name()+" works on objects owned by a "+gt.key+": its mutex must be held in the corresponding mode")
	}
}

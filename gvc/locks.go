package main

import (
	"fmt"
	"go/token"
	"strings"
)

// Lock protocol.
//
// A `lock <mutex expr> : none|R|W` clause states in which mode the function's caller holds that mutex, at
// entry and again at exit (balanced). A function without clauses is called with no container lock held.
// HELD : mutex address -> {0 free, 1 read-locked, 2 write-locked} (by the current call chain).

type lockClause struct {
	expr Expr
	mode int // 0 none, 1 R, 2 W
	text string
}

func parseLockClauses(spec *FuncSpec, vc *VC) []lockClause {
	var out []lockClause
	for _, c := range spec.Lock {
		k := strings.LastIndex(c.Text, ":")
		if k < 0 {
			vc.errorf("%s: lock clause needs '<mutex> : none|R|W'", c.Src)
			continue
		}
		e, err := parseExpr(c.Text[:k])
		if err != nil {
			vc.errorf("%s: %v", c.Src, err)
			continue
		}
		mode := -1
		switch strings.TrimSpace(c.Text[k+1:]) {
		case "none":
			mode = 0
		case "R":
			mode = 1
		case "W":
			mode = 2
		}
		if mode < 0 {
			vc.errorf("%s: lock mode must be none, R or W", c.Src)
			continue
		}
		out = append(out, lockClause{e, mode, c.Text})
	}
	return out
}

func (ev *Eval) mutexAddr(e Expr) string {
	x := ev.eval(e)
	return x.T
}

func (ex *Exec) lockEntry(spec *FuncSpec, ev *Eval) {
	held := "((as const (Array Int Int)) 0)"
	for _, lc := range parseLockClauses(spec, ex.vc) {
		if lc.mode > 0 {
			held = sSto(held, ev.mutexAddr(lc.expr), fmt.Sprint(lc.mode))
		}
	}
	ex.heldEntry = held
}

// useHeld: the entry fact about HELD is only emitted in functions that touch a lock at all (a constant-array
// equality in every query slows the solvers down for nothing).
func (ex *Exec) useHeld() {
	top := ex
	for top.parent != nil {
		top = top.parent
	}
	if top.heldEntry != "" && !top.heldEmitted {
		top.heldEmitted = true
		top.vc.declareOnce("comp:HELD", "(declare-const c0_HELD (Array Int Int))")
		top.vc.compSort["HELD"] = "(Array Int Int)"
		top.vc.decls = append(top.vc.decls, "(assert (= c0_HELD "+top.heldEntry+"))")
	}
}

func (ex *Exec) lockExit(spec *FuncSpec, st *State, exitReach string) {
	if _, used := st.m["HELD"]; !used {
		return
	}
	ex.vc.oblige("lock.balanced", "lock", ex.fn.Pos(), exitReach, sEq(ex.get(st, "HELD", "(Array Int Int)"), ex.get(ex.entry, "HELD", "(Array Int Int)")),
		"every lock taken is released on every path, and nothing the caller holds is released")
}

// lockCallProtocol: the caller must hold the callee's mutexes exactly as the callee's lock clauses say.
func (ex *Exec) lockCallProtocol(spec *FuncSpec, ev *Eval, pos token.Pos, name string) {
	if len(spec.Lock) == 0 {
		return
	}
	ex.useHeld()
	held := ex.get(ex.curState, "HELD", "(Array Int Int)")
	for _, lc := range parseLockClauses(spec, ex.vc) {
		cur := sSel(held, ev.mutexAddr(lc.expr))
		switch lc.mode {
		case 0:
			ex.vc.oblige("lock.call."+name+".free", "lock", pos, ex.curReach, sEq(cur, "0"), "callee "+name+" acquires "+strings.TrimSpace(lc.text)+": it must not be held here (self-deadlock)")
		case 1, 2:
			// an object created during this call and not yet published is thread-local: its lock need not be held
			local := sNot(sSel(ex.get(ex.entry, "alloc", "(Array Int Bool)"), "(rootOf "+ev.mutexAddr(lc.expr)+")"))
			need := "(>= " + cur + " 1)"
			if lc.mode == 2 {
				need = sEq(cur, "2")
			}
			ex.vc.oblige("lock.call."+name+".held", "lock", pos, ex.curReach, sOr(need, local), "callee "+name+" needs "+strings.TrimSpace(lc.text)+" (or an object that is still local to this call)")
		}
	}
}

// Permission checks for lock-guarded state (concurrent mode).

func (ex *Exec) permCheck(compKey, ref string, write bool)        {}
func (ex *Exec) permCheckElem(compKey, arr string, write bool)    {}
func (ex *Exec) permCheckMap(mk mapKeys, m string, write bool)    {}
func (ex *Exec) afterAcquire(mu string, mode int, pos token.Pos)  {}
func (ex *Exec) beforeRelease(mu string, mode int, pos token.Pos) {}

package main

import (
	"flag"
	"fmt"
	"os"
	"path/filepath"
	"sort"
	"strings"
	"sync"
	"time"
)

func verifDir() string {
	if d := os.Getenv("GVC_VERIF_DIR"); d != "" {
		return d
	}
	exe, err := os.Executable()
	if err == nil {
		d := filepath.Dir(filepath.Dir(exe))
		if _, err := os.Stat(filepath.Join(d, "properties.jsonl")); err == nil {
			return d
		}
	}
	return "/verif"
}

func repoDir() string {
	if d := os.Getenv("GVC_REPO"); d != "" {
		return d
	}
	return "/repo"
}

func main() {
	if len(os.Args) < 2 {
		fmt.Fprintln(os.Stderr, "usage: gvc check|func|doctor|list|replay ...")
		os.Exit(2)
	}
	switch os.Args[1] {
	case "func":
		cmdFunc(os.Args[2:])
	case "check":
		os.Exit(cmdCheck(os.Args[2:]))
	case "ssa":
		w := load()
		for _, k := range os.Args[2:] {
			if f := w.Funcs[k]; f != nil {
				f.WriteTo(os.Stdout)
			} else {
				fmt.Println("no function", k)
			}
		}
	case "doctor":
		os.Exit(cmdDoctor())
	case "list":
		cmdList(os.Args[2:])
	case "replay":
		os.Exit(cmdReplay(os.Args[2:]))
	case "selftest":
		os.Exit(cmdSelftest(os.Args[2:]))
	default:
		fmt.Fprintln(os.Stderr, "unknown command", os.Args[1])
		os.Exit(2)
	}
}

func load() *World {
	w, err := loadWorld(repoDir())
	if err != nil {
		fmt.Fprintln(os.Stderr, "gvc: load:", err)
		os.Exit(3)
	}
	if err := w.loadExtern(filepath.Join(verifDir(), "extern")); err != nil {
		fmt.Fprintln(os.Stderr, "gvc: extern contracts:", err)
		os.Exit(3)
	}
	return w
}

func workDir() string {
	d, err := os.MkdirTemp("", "gvc-work-")
	if err != nil {
		fmt.Fprintln(os.Stderr, err)
		os.Exit(3)
	}
	return d
}

// cmdFunc: debug one function: print obligations and solver outcomes.
func cmdFunc(args []string) {
	fs := flag.NewFlagSet("func", flag.ExitOnError)
	dump := fs.String("dump", "", "write SMT scripts of failing obligations to this directory")
	timeout := fs.Int("t", 10, "timeout seconds")
	conc := fs.Bool("conc", false, "concurrent mode")
	all := fs.Bool("all", false, "all solvers")
	only := fs.String("only", "", "only obligations containing this substring")
	fs.Parse(args)
	w := load()
	wd := workDir()
	defer os.RemoveAll(wd)
	for _, key := range fs.Args() {
		keys := []string{key}
		if strings.HasSuffix(key, "*") {
			keys = nil
			for _, k := range w.Contracts.Order {
				if strings.HasPrefix(k, strings.TrimSuffix(key, "*")) {
					keys = append(keys, k)
				}
			}
		}
		for _, key := range keys {
			t0 := time.Now()
			fr, err := w.genFunction(key, *conc)
			if err != nil {
				fmt.Println("ERROR", key, err)
				continue
			}
			fmt.Printf("== %s  (%d facts, gen %.2fs)\n", key, len(fr.Facts), time.Since(t0).Seconds())
			for _, e := range fr.Errs {
				fmt.Println("   GEN-ERROR:", e)
			}
			if os.Getenv("GVC_WARN") != "" {
				for _, e := range fr.Warns {
					fmt.Println("   warning:", e)
				}
			}
			opts := SolveOpts{Timeout: time.Duration(*timeout) * time.Second, Seed: 1, WorkDir: wd, AllSolvers: *all}
			results := solveFunc(fr, opts, *only)
			nfail := 0
			for _, r := range results {
				if r.Status != "discharged" {
					nfail++
					if nfail > 12 {
						continue
					}
				}
				mark := "ok  "
				if r.Status != "discharged" {
					mark = "FAIL"
				}
				fmt.Printf("   %s %-60s %-10s %-12s %.2fs %dB\n", mark, strings.TrimPrefix(r.Name, key), r.Status, r.Solver, r.Secs, r.Bytes)
				if r.Status != "discharged" || os.Getenv("GVC_DUMPALL") != "" {
					fmt.Printf("        %s\n", r.Info)
					if *dump != "" {
						os.MkdirAll(*dump, 0o755)
						fn := filepath.Join(*dump, sanitize(r.Name)+".smt2")
						os.WriteFile(fn, []byte(r.Script), 0o644)
						fmt.Printf("        script: %s\n", fn)
					}
				}
			}
			if nfail > 12 {
				fmt.Printf("   ... %d failing obligations in total\n", nfail)
			}
			cs, _ := coverCheck(fr, opts, 0)
			fmt.Printf("   cover (some return reachable under the assumptions): %s\n", cs)
		}
	}
}

func solveFunc(fr *FuncResult, opts SolveOpts, only string) []OblResult {
	var idxs []int
	for i, f := range fr.Facts {
		if f.Oblig && (only == "" || strings.Contains(f.Name, only) || (strings.HasPrefix(only, "~") && strings.Contains(f.Info, only[1:]))) {
			idxs = append(idxs, i)
		}
	}
	results := make([]OblResult, len(idxs))
	var wg sync.WaitGroup
	sem := make(chan struct{}, 16)
	for k, i := range idxs {
		wg.Add(1)
		go func(k, i int) {
			defer wg.Done()
			sem <- struct{}{}
			defer func() { <-sem }()
			results[k] = solveObligation(fr, i, opts, i)
		}(k, i)
	}
	wg.Wait()
	return results
}

func cmdList(args []string) {
	w := load()
	var keys []string
	for k := range w.Funcs {
		keys = append(keys, k)
	}
	sort.Strings(keys)
	for _, k := range keys {
		c := ""
		if sp := w.Contracts.Funcs[k]; sp != nil {
			c = " [contract: " + strings.Join(sp.Properties, ",") + "]"
		}
		fmt.Println(k + c)
	}
}

func cmdDoctor() int {
	wd := workDir()
	defer os.RemoveAll(wd)
	ok := true
	for _, sd := range solvers {
		st, out, _ := runSolver(sd, "(set-logic ALL)\n(declare-const x Int)\n(assert (and (> x 0) (< x 0)))\n(check-sat)\n", filepath.Join(wd, "d.smt2"), 5*time.Second, 1)
		st2, _, _ := runSolver(sd, "(set-logic ALL)\n(declare-const x Int)\n(assert (> x 0))\n(check-sat)\n", filepath.Join(wd, "d.smt2"), 5*time.Second, 1)
		fmt.Printf("%-14s unsat-query:%s sat-query:%s\n", sd.name, st, st2)
		if st != "unsat" || st2 != "sat" {
			ok = false
			fmt.Println(out)
		}
	}
	if !ok {
		return 1
	}
	return 0
}

package main

import (
	"fmt"
	"go/token"
	"go/types"
	"strings"

	"golang.org/x/tools/go/ssa"
)

// nativeCall: functions outside the module whose (assumed) semantics are built into the generator.
// Every use is recorded in vc.externs and reported as an assumption.
func (ex *Exec) nativeCall(key string, callee *ssa.Function, c *ssa.CallCommon, args []Val, pos token.Pos) (Val, bool) {
	vc := ex.vc
	note := func() { vc.externs[key+" (built-in model)"] = true }
	switch key {
	case "errors.New", "fmt.Errorf":
		note()
		// a fresh non-nil error value; no effect on library memory
		r := vc.fresh(ex.pfx+"err", "Int")
		vc.assume("(not (= " + r + " 0))")
		vc.assume(sNot(sSel(ex.allocComp(ex.curState), "(rootOf "+r+")")))
		return Val{T: r}, true
	case "fmt.Sprintf", "fmt.Sprint", "fmt.Sprintln":
		note()
		vc.needStr()
		r := vc.fresh(ex.pfx+"str", strSort)
		vc.assume("(>= (slen " + r + ") 0)")
		return Val{T: r}, true
	case "(*sync.RWMutex).Lock", "(*sync.Mutex).Lock":
		note()
		ex.curMuOwner = ex.muOwnerType(c.Args[0])
		ex.lockOp(args[0].T, 2, true, pos)
		return Val{}, true
	case "(*sync.RWMutex).RLock":
		note()
		ex.curMuOwner = ex.muOwnerType(c.Args[0])
		ex.lockOp(args[0].T, 1, true, pos)
		return Val{}, true
	case "(*sync.RWMutex).Unlock", "(*sync.Mutex).Unlock":
		note()
		ex.curMuOwner = ex.muOwnerType(c.Args[0])
		ex.lockOp(args[0].T, 2, false, pos)
		return Val{}, true
	case "(*sync.RWMutex).RUnlock":
		note()
		ex.curMuOwner = ex.muOwnerType(c.Args[0])
		ex.lockOp(args[0].T, 1, false, pos)
		return Val{}, true
	case "time.Now":
		note()
		// monotone ghost clock: each read returns a value >= the previous one
		st := ex.curState
		clk := ex.get(st, "CLK", "Int")
		n := vc.fresh(ex.pfx+"now", "Int")
		vc.assume("(>= " + n + " " + clk + ")")
		ex.set(st, "CLK", "Int", n)
		return Val{T: ex.mkTime(n)}, true
	case "(time.Time).UnixNano":
		note()
		return Val{T: ex.timeNanos(args[0].T)}, true
	case "(time.Time).Add":
		note()
		return Val{T: ex.mkTime("(+ " + ex.timeNanos(args[0].T) + " " + args[1].T + ")")}, true
	case "time.Since":
		note()
		st := ex.curState
		clk := ex.get(st, "CLK", "Int")
		n := vc.fresh(ex.pfx+"now", "Int")
		vc.assume("(>= " + n + " " + clk + ")")
		ex.set(st, "CLK", "Int", n)
		return Val{T: "(- " + n + " " + ex.timeNanos(args[0].T) + ")"}, true
	case "(*singleflight.Group).Do":
		// Assumed contract of x/sync singleflight (not verified): for one key, executions of the supplied functions
		// never overlap; Do either runs fn exactly once, synchronously, and returns what it returned (ran), or --
		// when an execution for the same key is already in flight -- does not run fn and returns that execution's
		// results (a value of the same dynamic type, produced by a function supplied under the same key).
		mc, ok := c.Args[2].(*ssa.MakeClosure)
		if !ok {
			break
		}
		note()
		vc.assumptions["singleflight.Group.Do: per key, supplied functions never run concurrently; a caller arriving during a flight gets that flight's (v, err) without running its own function; otherwise the function runs exactly once, synchronously (x/sync is outside the module: trusted)"] = true
		st0 := ex.curState
		ex.set(st0, "DOCNT", "Int", "(+ "+ex.get(st0, "DOCNT", "Int")+" 1)")
		ex.set(st0, "DOKEY", strSort, args[1].T)
		ran := vc.fresh(ex.pfx+"do_ran", "Bool")
		ex.set(st0, "DORAN", "Bool", ran)
		pre := ex.curState.clone()
		reach0 := ex.curReach
		ex.curReach = vc.define(ex.pfx+"do_reach", "Bool", sAnd(reach0, ran))
		fnc := mc.Fn.(*ssa.Function)
		r := ex.inlineCall(funcKey(fnc), fnc, ex.ts, mc, nil, pos)
		post := ex.curState
		// merge: the closure's effects only if it ran
		merged := newState()
		keys := map[string]bool{}
		for k := range post.m {
			keys[k] = true
		}
		for k := range pre.m {
			keys[k] = true
		}
		for _, k := range sortedKeys(keys) {
			srt := vc.compSort[k]
			merged.m[k] = vc.define("do_"+k, srt, sIte(ran, ex.get(post, k, srt), ex.get(pre, k, srt)))
		}
		ex.curState = merged
		ex.curReach = reach0
		if len(r.Tup) != 2 {
			vc.errorf("singleflight.Do: the supplied function must return (any, error)")
			break
		}
		vc.declareOnce("fn:dyntag", "(declare-fun dyntag (Int) Int)")
		dsh := vc.fresh(ex.pfx+"do_shared_v", "Int")
		esh := vc.fresh(ex.pfx+"do_shared_err", "Int")
		vc.assume(sImp(reach0, sAnd(sEq("(dyntag "+dsh+")", "(dyntag "+r.Tup[0].T+")"), sEq(sEq(dsh, "0"), sEq(r.Tup[0].T, "0")))))
		data := vc.define(ex.pfx+"do_v", "Int", sIte(ran, r.Tup[0].T, dsh))
		derr := vc.define(ex.pfx+"do_err", "Int", sIte(ran, r.Tup[1].T, esh))
		return Val{Tup: []Val{{T: data}, {T: derr}, {T: vc.fresh(ex.pfx+"do_sharedflag", "Bool")}}}, true
	case "strings.Repeat":
		note()
		vc.strPrelude()
		vc.declareOnce("str:cyc", `(declare-fun str_cyc (Str Int) Int)
(assert (forall ((s Str) (i Int)) (! (=> (and (<= 0 i) (< i (slen s))) (= (str_cyc s i) (select (sbytes s) i))) :pattern ((str_cyc s i)))))`)
		ex.nopanic("nopanic.repeat", pos, "(>= "+args[1].T+" 0)", "strings.Repeat: negative count")
		r := vc.fresh(ex.pfx+"rep", strSort)
		sl := "(slen " + args[0].T + ")"
		vc.assume(sImp(ex.curReach, sAnd("(str_wf "+r+")",
			sImp(sOr("(= "+args[1].T+" 0)", "(= "+sl+" 0)"), "(= (slen "+r+") 0)"),
			sImp("(>= "+sl+" 1)", "(>= (slen "+r+") "+args[1].T+")"),
			"(<= (slen "+r+") 72057594037927936)",
			fmt.Sprintf("(forall ((i Int)) (! (=> (and (<= 0 i) (< i (slen %s))) (= (select (sbytes %s) i) (str_cyc %s i))) :pattern ((select (sbytes %s) i))))", r, r, args[0].T, r))))
		vc.assumptions["strings.Repeat(s, n): n copies of s (length n*len(s), byte i is s[i mod len(s)], written str_cyc(s,i)); only the consequences len >= n (for non-empty s) and the first period are given to the solver"] = true
		return Val{T: r}, true
	case "math.Floor":
		note()
		return Val{T: "(to_real (to_int " + args[0].T + "))"}, true
	case "math.Ceil":
		note()
		return Val{T: "(- (to_real (to_int (- " + args[0].T + "))))"}, true
	case "strings.Index", "strings.LastIndex":
		note()
		// assumed contract: the first / last byte offset at which substr occurs in s, or -1
		vc.strPrelude()
		vc.declareOnce("str:occurs", `(declare-fun str_occurs (Str Str Int) Bool)
(assert (forall ((s Str) (t Str) (p Int)) (! (= (str_occurs s t p) (and (<= 0 p) (<= (+ p (slen t)) (slen s)) (forall ((i Int)) (! (=> (and (<= 0 i) (< i (slen t))) (= (select (sbytes s) (+ p i)) (select (sbytes t) i))) :pattern ((select (sbytes t) i)))))) :pattern ((str_occurs s t p)))))`)
		r := vc.fresh(ex.pfx+"stridx", "Int")
		sv, tv := args[0].T, args[1].T
		var ext string
		if key == "strings.Index" {
			ext = fmt.Sprintf("(forall ((q Int)) (! (=> (and (<= 0 q) (< q %s)) (not (str_occurs %s %s q))) :pattern ((str_occurs %s %s q))))", r, sv, tv, sv, tv)
		} else {
			ext = fmt.Sprintf("(forall ((q Int)) (! (=> (> q %s) (not (str_occurs %s %s q))) :pattern ((str_occurs %s %s q))))", r, sv, tv, sv, tv)
		}
		vc.assume(sImp(ex.curReach, sAnd("(>= "+r+" (- 1))", "(<= "+r+" (slen "+sv+"))",
			sImp("(>= "+r+" 0)", sAnd("(str_occurs "+sv+" "+tv+" "+r+")", ext)),
			sImp("(= "+r+" (- 1))", fmt.Sprintf("(forall ((q Int)) (! (not (str_occurs %s %s q)) :pattern ((str_occurs %s %s q))))", sv, tv, sv, tv)))))
		// two consequences at the positions callers care about (prefix / suffix), stated on ground terms so that
		// the solver has something to instantiate the definition of str_occurs with
		if key == "strings.Index" {
			vc.assume(sImp(ex.curReach, sImp("(str_occurs "+sv+" "+tv+" 0)", sEq(r, "0"))))
		} else {
			end := "(- (slen " + sv + ") (slen " + tv + "))"
			vc.assume(sImp(ex.curReach, sImp("(str_occurs "+sv+" "+tv+" "+end+")", sEq(r, end))))
		}
		vc.assumptions["strings.Index / strings.LastIndex return the first / last byte offset of an occurrence, or -1 if there is none"] = true
		return Val{T: r}, true
	case "(*strings.Builder).WriteString", "(*strings.Builder).WriteRune", "(*strings.Builder).WriteByte":
		note()
		vc.strPrelude()
		st := ex.curState
		sb := ex.get(st, "SB", "(Array Int Str)")
		add := args[1].T
		if key != "(*strings.Builder).WriteString" {
			add = vc.strFromRune(args[1].T)
		}
		ex.set(st, "SB", "(Array Int Str)", sSto(sb, args[0].T, vc.strConcat(sSel(sb, args[0].T), add)))
		vc.assumptions["strings.Builder accumulates exactly the strings written to it (a zero Builder is empty)"] = true
		n := vc.fresh(ex.pfx+"wn", "Int")
		if key == "(*strings.Builder).WriteByte" {
			return Val{T: "0"}, true
		}
		return Val{Tup: []Val{{T: n}, {T: "0"}}}, true
	case "(*strings.Builder).String":
		note()
		vc.strPrelude()
		return Val{T: sSel(ex.get(ex.curState, "SB", "(Array Int Str)"), args[0].T)}, true
	case "(*strings.Builder).Grow", "(*strings.Builder).Reset":
		note()
		if key == "(*strings.Builder).Reset" {
			st := ex.curState
			ex.set(st, "SB", "(Array Int Str)", sSto(ex.get(st, "SB", "(Array Int Str)"), args[0].T, vc.strEmpty()))
		}
		return Val{}, true
	case "unicode.ToLower", "unicode.ToUpper":
		note()
		fn := "uni_lower"
		if key == "unicode.ToUpper" {
			fn = "uni_upper"
		}
		vc.declareOnce("fn:"+fn, "(declare-fun "+fn+" (Int) Int)\n(assert (forall ((r Int)) (! (and (<= 0 ("+fn+" r)) (<= ("+fn+" r) 1114111)) :pattern (("+fn+" r)))))")
		vc.assumptions["unicode.ToLower / unicode.ToUpper are fixed functions of the rune (uninterpreted uni_lower / uni_upper)"] = true
		return Val{T: "(" + fn + " " + args[0].T + ")"}, true
	case "time.After":
		note()
		// a channel that delivers once the ghost clock has advanced by at least d
		r := ex.newRef("timerch")
		st := ex.curState
		ex.set(st, "TDUE", "(Array Int Int)", sSto(ex.get(st, "TDUE", "(Array Int Int)"), r, "(+ "+ex.get(st, "CLK", "Int")+" "+args[0].T+")"))
		return Val{T: r}, true
	case "time.Sleep":
		note()
		st := ex.curState
		n := vc.fresh(ex.pfx+"now", "Int")
		vc.assume("(>= " + n + " (+ " + ex.get(st, "CLK", "Int") + " " + args[0].T + "))")
		vc.assume("(>= " + n + " " + ex.get(st, "CLK", "Int") + ")")
		ex.set(st, "CLK", "Int", n)
		return Val{}, true
	case "rand.Int":
		note()
		r := vc.fresh(ex.pfx+"rand", "Int")
		vc.assume("(and (>= " + r + " 0) (<= " + r + " 9223372036854775807))")
		return Val{T: r}, true
	case "sort.Slice":
		// assumed contract of sort.Slice(x, less): the elements of x are permuted in place so that afterwards
		// less(j, i) is false for all i < j (less is evaluated on the permuted slice); nothing else changes.
		mi, ok1 := c.Args[0].(*ssa.MakeInterface)
		mc, ok2 := c.Args[1].(*ssa.MakeClosure)
		if !ok1 || !ok2 {
			break
		}
		sl, ok := ex.typ(mi.X.Type()).Underlying().(*types.Slice)
		if !ok || isStructType(sl.Elem()) {
			break
		}
		note()
		st := ex.curState
		s := ex.val(mi.X).T
		k, srt := ex.elemKey(sl.Elem())
		as := "(Array Int (Array Int " + srt + "))"
		E := ex.get(st, k, as)
		A := sSel(E, "(sarr "+s+")")
		A2 := vc.fresh(ex.pfx+"sorted", "(Array Int "+srt+")")
		vc.ctr++
		sp, spi := fmt.Sprintf("sortperm_%d", vc.ctr), fmt.Sprintf("sortinv_%d", vc.ctr)
		vc.decls = append(vc.decls, "(declare-fun "+sp+" (Int) Int)", "(declare-fun "+spi+" (Int) Int)")
		off, ln := "(soff "+s+")", "(slen_ "+s+")"
		vc.assume(sImp(ex.curReach, fmt.Sprintf("(forall ((a Int)) (! (=> (or (< a %s) (>= a (+ %s %s))) (= (select %s a) (select %s a))) :pattern ((select %s a))))", off, off, ln, A2, A, A2)))
		vc.assume(sImp(ex.curReach, fmt.Sprintf("(forall ((q Int)) (! (=> (and (<= 0 q) (< q %s)) (and (<= 0 (%s q)) (< (%s q) %s) (= (select %s (ix %s q)) (select %s (ix %s (%s q)))) (= (%s (%s q)) q))) :pattern ((%s q)) :pattern ((select %s (ix %s q)))))", ln, sp, sp, ln, A2, off, A, off, sp, spi, sp, sp, A2, off)))
		vc.assume(sImp(ex.curReach, fmt.Sprintf("(forall ((q Int)) (! (=> (and (<= 0 q) (< q %s)) (and (<= 0 (%s q)) (< (%s q) %s) (= (%s (%s q)) q))) :pattern ((%s q))))", ln, spi, spi, ln, sp, spi, spi)))
		vc.assume(sImp(ex.curReach, fmt.Sprintf("(forall ((q Int)) (! (=> (and (<= 0 q) (< q %s)) (= (select %s (ix %s q)) (select %s (ix %s (%s q))))) :pattern ((select %s (ix %s q)))))", ln, A, off, A2, off, spi, A, off)))
		ex.permCheckElem(k, "(sarr "+s+")", true)
		ex.set(st, k, as, sSto(E, "(sarr "+s+")", A2))
		if body, ok := ex.closureBody(mc, ex.curState, []string{"sj", "si"}); ok {
			vc.assume(sImp(ex.curReach, fmt.Sprintf("(forall ((si Int) (sj Int)) (=> (and (<= 0 si) (< si sj) (< sj %s)) (not %s)))", ln, body)))
		} else {
			vc.errorf("sort.Slice at %s: the less closure is not a single pure expression; sortedness is not assumed", vc.w.pos(pos))
		}
		vc.assumptions["sort.Slice leaves a permutation of the slice in which less(j,i) is false for all i<j; it writes nothing else"] = true
		return Val{}, true
	case "time.AfterFunc":
		note()
		// a ghost timer record: due time, function and whether it is still scheduled; the runtime runs the
		// function of a scheduled timer at some instant >= due (assumed contract of package time)
		r := ex.newRef("timer")
		st := ex.curState
		ex.set(st, "TMRDUE", "(Array Int Int)", sSto(ex.get(st, "TMRDUE", "(Array Int Int)"), r, "(+ "+ex.get(st, "CLK", "Int")+" "+args[0].T+")"))
		ex.set(st, "TMRFN", "(Array Int Int)", sSto(ex.get(st, "TMRFN", "(Array Int Int)"), r, args[1].T))
		ex.set(st, "TMRON", "(Array Int Bool)", sSto(ex.get(st, "TMRON", "(Array Int Bool)"), r, "true"))
		ex.set(st, "TMRN", "Int", "(+ "+ex.get(st, "TMRN", "Int")+" 1)")
		vc.assumptions["time.AfterFunc(d, f) schedules f to run once, not before d has elapsed; Timer.Stop unschedules it if it has not run yet"] = true
		return Val{T: r}, true
	case "time.NewTicker":
		note()
		return Val{T: ex.newRef("ticker")}, true
	case "(*time.Ticker).Stop", "(*time.Timer).Stop":
		note()
		if key == "(*time.Timer).Stop" {
			ex.nilCheck(args[0], pos)
			st := ex.curState
			ex.set(st, "TMRON", "(Array Int Bool)", sSto(ex.get(st, "TMRON", "(Array Int Bool)"), args[0].T, "false"))
			return Val{T: vc.fresh(ex.pfx+"stopped", "Bool")}, true
		}
		return Val{}, true
	case "(*sync.Cond).Broadcast", "(*sync.Cond).Signal":
		note()
		return Val{}, true
	case "(*sync.Cond).Wait":
		note()
		// Wait releases c.L, blocks, and re-acquires it: everything the lock guards may have been changed by other
		// goroutines (down to the lock invariant), and time has passed
		ex.nilCheck(args[0], pos)
		mu := ex.condLocker(args[0].T)
		ex.useHeld()
		ex.vc.oblige("lock.condwait", "lock", pos, ex.curReach, sEq(sSel(ex.get(ex.curState, "HELD", "(Array Int Int)"), mu), "2"), "sync.Cond.Wait is called with c.L held")
		ex.curMuOwner = "*"
		ex.concLeaveSection(mu, pos)
		st := ex.curState
		n := vc.fresh(ex.pfx+"now", "Int")
		vc.assume("(>= " + n + " " + ex.get(st, "CLK", "Int") + ")")
		ex.set(st, "CLK", "Int", n)
		ex.noLpCheck = true
		ex.concEnterSection(mu, pos, false)
		ex.noLpCheck = false
		vc.assumptions["sync.Cond.Wait atomically releases c.L, suspends, and re-locks c.L before returning"] = true
		return Val{}, true
	case "errors.Join":
		note()
		// nil iff every argument is nil; a joined error has no single wrapped error (errors.Unwrap gives nil)
		vc.declareOnce("fn:unwrapOf", "(declare-fun unwrapOf (Int) Int)")
		r := vc.fresh(ex.pfx+"joined", "Int")
		n := staticLen(c.Args[0])
		if n < 0 {
			break
		}
		E := ex.get(ex.curState, "E:Int", "(Array Int (Array Int Int))")
		var nils []string
		for k := 0; k < n; k++ {
			nils = append(nils, fmt.Sprintf("(= (select (select %s (sarr %s)) (ix (soff %s) %d)) 0)", E, args[0].T, args[0].T, k))
		}
		vc.assume(sImp(ex.curReach, sAnd(sEq(sEq(r, "0"), sAnd(nils...)), "(= (unwrapOf "+r+") 0)", sNot(sSel(ex.allocComp(ex.curState), "(rootOf "+r+")")))))
		return Val{T: r}, true
	case "errors.Unwrap":
		note()
		vc.declareOnce("fn:unwrapOf", "(declare-fun unwrapOf (Int) Int)")
		return Val{T: sIte(sEq(args[0].T, "0"), "0", "(unwrapOf "+args[0].T+")")}, true
	case "runtime.SetFinalizer":
		note()
		return Val{}, true
	}
	return Val{}, false
}

// time.Time is modelled by its nanosecond reading of the ghost clock.
func (ex *Exec) mkTime(n string) string {
	t := types.Type(nil)
	for _, p := range ex.vc.w.Prog.AllPackages() {
		if p.Pkg.Path() == "time" {
			t = p.Pkg.Scope().Lookup("Time").Type()
		}
	}
	if t == nil {
		return n
	}
	srt := ex.vc.sortOf(t)
	ex.vc.declareOnce("fn:mktime", fmt.Sprintf("(declare-fun mk_time (Int) %s)\n(declare-fun time_ns (%s) Int)\n(assert (forall ((n Int)) (! (= (time_ns (mk_time n)) n) :pattern ((mk_time n)))))", srt, srt))
	return "(mk_time " + n + ")"
}

func (ex *Exec) timeNanos(t string) string {
	ex.mkTime("0")
	return "(time_ns " + t + ")"
}

// ---------------------------------------------------------------- locks (sequential bookkeeping; permissions in locks.go)

func (ex *Exec) lockOp(mu string, mode int, acquire bool, pos token.Pos) {
	if !strings.HasPrefix(mu, "(sub ") {
		ex.nopanic("nopanic.nil", pos, "(not (= "+mu+" 0))", "mutex pointer is not nil")
	}
	ex.useHeld()
	st := ex.curState
	held := ex.get(st, "HELD", "(Array Int Int)")
	cur := sSel(held, mu)
	if acquire {
		ex.vc.oblige("lock.acquire", "lock", pos, ex.curReach, sEq(cur, "0"), "lock is not already held by this call (no self-deadlock)")
		ex.vc.assume(sImp(ex.curReach, sEq(cur, "0")))
		ex.set(st, "HELD", "(Array Int Int)", sSto(held, mu, fmt.Sprint(mode)))
		ex.afterAcquire(mu, mode, pos)
	} else {
		ex.beforeRelease(mu, mode, pos)
		ex.vc.oblige("lock.release", "lock", pos, ex.curReach, sEq(cur, fmt.Sprint(mode)), "unlock matches a held lock of the same mode")
		ex.vc.assume(sImp(ex.curReach, sEq(cur, fmt.Sprint(mode))))
		ex.set(st, "HELD", "(Array Int Int)", sSto(held, mu, "0"))
	}
}

// ---------------------------------------------------------------- interfaces

func (ex *Exec) invokeCall(v *ssa.Call, c *ssa.CallCommon, pos token.Pos) Val {
	recv := ex.val(c.Value)
	it := ex.typ(c.Value.Type())
	name := c.Method.Name()
	key := ""
	if n, ok := types.Unalias(it).(*types.Named); ok {
		key = "(" + namedKey(n) + ")." + name
	} else {
		key = "(interface)." + name
	}
	if key == "(sync.Locker).Lock" || key == "(sync.Locker).Unlock" {
		ex.vc.externs["sync.Locker (a *sync.Mutex behind the interface: built-in lock model)"] = true
		ex.curMuOwner = "*"
		ex.lockOp(recv.T, 2, name == "Lock", pos)
		return Val{}
	}
	if key == "(error).Error" {
		ex.vc.needStr()
		return Val{T: ex.vc.fresh(ex.pfx+"errstr", strSort)}
	}
	spec := ex.vc.w.Contracts.Funcs[key]
	if spec == nil {
		ex.vc.errorf("interface call %s at %s has no contract", key, ex.vc.w.pos(pos))
		sig := c.Method.Type().(*types.Signature)
		return ex.havocResult(ex.typ(sig).(*types.Signature))
	}
	return ex.ifaceContractCall(key, spec, c, recv, pos)
}

func (ex *Exec) ifaceContractCall(key string, spec *FuncSpec, c *ssa.CallCommon, recv Val, pos token.Pos) Val {
	ex.vc.usedSpecs[key] = true
	ex.vc.externs[key+" (interface contract)"] = true
	sig := ex.typ(c.Method.Type()).(*types.Signature)
	pre := ex.curState
	ev := ex.newEval(pre, pre)
	ev.vars["self"] = TV{T: recv.T, Ty: goVT(ex.typ(c.Value.Type()))}
	args := ex.args(c)
	for i := 0; i < sig.Params().Len() && i < len(args); i++ {
		ev.vars[fmt.Sprintf("arg%d", i)] = TV{T: args[i].T, Ty: goVT(sig.Params().At(i).Type())}
	}
	for k, r := range spec.Requires {
		t := ev.evalBool(r.Expr)
		ex.vc.oblige(fmt.Sprintf("call.%s.requires[%d]", c.Method.Name(), k+1), "", pos, ex.curReach, t, "precondition of "+key)
	}
	post := pre.clone()
	ex.curState = post
	for _, m := range spec.Modifies {
		for _, loc := range splitTop(m.Text, ',') {
			for _, tg := range ev.modTargets(loc) {
				cur := ex.get(post, tg.key, tg.sort)
				fresh := ex.vc.fresh("hv_"+tg.key, tg.sort)
				if tg.all {
					ex.set(post, tg.key, tg.sort, fresh)
				} else {
					ex.set(post, tg.key, tg.sort, sSto(cur, tg.idx, sSel(fresh, tg.idx)))
				}
			}
		}
	}
	pev := ex.newEval(post, pre)
	for k, v := range ev.vars {
		pev.vars[k] = v
	}
	var tup []Val
	for i := 0; i < sig.Results().Len(); i++ {
		rt := sig.Results().At(i).Type()
		n := ex.vc.fresh(ex.pfx+"ir", ex.vc.sortOf(rt))
		tup = append(tup, Val{T: n})
		pev.vars[fmt.Sprintf("result%d", i)] = TV{T: n, Ty: goVT(rt)}
		if i == 0 {
			pev.vars["result"] = TV{T: n, Ty: goVT(rt)}
		}
	}
	for _, e := range spec.Ensures {
		ex.vc.assume(sImp(ex.curReach, pev.evalBool(e.Expr)))
	}
	switch len(tup) {
	case 0:
		return Val{}
	case 1:
		return tup[0]
	}
	return Val{Tup: tup}
}

// box/unbox of interface values: box_<type>(payload) is injective, non-nil, and carries a dynamic type tag.
func (ex *Exec) boxFn(t types.Type) (string, string) {
	t = ex.typ(t)
	srt := ex.vc.sortOf(t)
	id := sanitize(types.TypeString(t, func(p *types.Package) string { return p.Name() }))
	fn := "box_" + id
	ex.vc.declareOnce("fn:dyntag", "(declare-fun dyntag (Int) Int)")
	tag := "tag_" + id
	if !ex.vc.declared["fn:"+fn] {
		ex.vc.declareOnce("fn:"+fn, fmt.Sprintf("(declare-fun %s (%s) Int)\n(declare-fun un%s (Int) %s)\n(declare-const %s Int)\n(assert (forall ((x %s)) (! (and (not (= (%s x) 0)) (= (un%s (%s x)) x) (= (dyntag (%s x)) %s)) :pattern ((%s x)))))",
			fn, srt, fn, srt, tag, srt, fn, fn, fn, fn, tag, fn))
		// distinct concrete types have distinct tags; type parameters may coincide with anything
		if _, isTP := types.Unalias(t).(*types.TypeParam); !isTP {
			for _, other := range ex.vc.concreteTags {
				ex.vc.decls = append(ex.vc.decls, fmt.Sprintf("(assert (not (= %s %s)))", tag, other))
			}
			ex.vc.concreteTags = append(ex.vc.concreteTags, tag)
		}
	}
	return fn, tag
}

func (ex *Exec) doTypeAssert(i *ssa.TypeAssert) {
	x := ex.val(i.X)
	at := ex.typ(i.AssertedType)
	_, isTP := types.Unalias(at).(*types.TypeParam)
	if _, isIface := at.Underlying().(*types.Interface); isIface && !isTP {
		// interface-to-interface: value unchanged; success unknown unless non-nil any
		ok := ex.vc.fresh(ex.pfx+i.Name()+"_ok", "Bool")
		ex.vc.assume(sImp(ok, "(not (= "+x.T+" 0))"))
		if i.CommaOk {
			ex.vals[i] = Val{Tup: []Val{{T: x.T}, {T: ok}}}
		} else {
			ex.nopanic("nopanic.typeassert", i.Pos(), ok, "type assertion succeeds")
			ex.vals[i] = Val{T: x.T}
		}
		return
	}
	fn, tag := ex.boxFn(at)
	ok := ex.vc.define(ex.pfx+i.Name()+"_ok", "Bool", sAnd("(not (= "+x.T+" 0))", sEq("(dyntag "+x.T+")", tag)))
	payload := ex.vc.define(ex.pfx+i.Name()+"_v", ex.vc.sortOf(at), sIte(ok, "(un"+fn+" "+x.T+")", ex.vc.zeroOf(at)))
	ex.vc.assume(sImp(ex.curReach, ex.typeInv(payload, at, ex.curState)))
	if i.CommaOk {
		ex.vals[i] = Val{Tup: []Val{{T: payload}, {T: ok}}}
	} else {
		ex.nopanic("nopanic.typeassert", i.Pos(), ok, "type assertion succeeds")
		ex.vals[i] = Val{T: payload}
	}
}

func (ex *Exec) convertOther(i *ssa.Convert, from, to types.Type, x Val) {
	vc := ex.vc
	switch {
	case ex.isStringy(to) && ex.isNumeric(from):
		// string(rune) / string(byte): UTF-8 encoding of the code point
		ex.bind(i, vc.strFromRune(x.T))
	case ex.isStringy(to):
		if sl, ok := from.Underlying().(*types.Slice); ok {
			ex.bind(i, ex.strFromSlice(x.T, sl))
			return
		}
		vc.errorf("unsupported conversion %s -> %s", from, to)
	case ex.isStringy(from):
		if sl, ok := to.Underlying().(*types.Slice); ok {
			ex.bind(i, ex.sliceFromStr(x.T, sl))
			return
		}
		vc.errorf("unsupported conversion %s -> %s", from, to)
	default:
		if types.Identical(from.Underlying(), to.Underlying()) {
			ex.vals[i] = x
			return
		}
		vc.errorf("unsupported conversion %s -> %s at %s", from, to, vc.w.pos(i.Pos()))
		ex.vals[i] = Val{T: vc.fresh(ex.pfx+i.Name(), ex.sortOfT(i.Type()))}
	}
}

// ---------------------------------------------------------------- goroutines and channels (named special cases)

func (ex *Exec) doGo(i *ssa.Go) {
	// `go f(args)`: the new goroutine runs concurrently with this one and is verified as a function of its own
	// (started with no lock held); starting it has no effect on this activation's state.
	ex.vc.assumptions["a goroutine started by `go` is verified separately (as a function entered with no lock held); its start has no effect on the spawning call"] = true
	top := ex
	for top.parent != nil {
		top = top.parent
	}
	if top.vc.spec != nil {
		name := calleeName(&i.Call)
		st := ex.curState
		ex.set(st, "GOCNT", "Int", "(+ "+ex.get(st, "GOCNT", "Int")+" 1)")
		_ = name
	}
}

// Channels carry no verified protocol: a send has no effect on memory, a receive yields an arbitrary value.
func (ex *Exec) doSend(i *ssa.Send) {
	ex.vc.assumptions["channel operations are not given a protocol: a send has no effect on memory, a receive yields an arbitrary value (blocking and wake-up order are not modelled)"] = true
	// under `calllog` a send is recorded like a callback invocation: logf(q) is the channel, loga0(q, w) the value
	// sent -- this lets a contract state WHAT a function sends and in which order (not who receives it or when)
	top := ex
	for top.parent != nil {
		top = top.parent
	}
	if top.vc.spec == nil || !top.vc.spec.CallLog {
		return
	}
	st := ex.curState
	n := ex.get(st, "LOGN", "Int")
	ex.set(st, "LOGF", "(Array Int Int)", sSto(ex.get(st, "LOGF", "(Array Int Int)"), n, ex.val(i.Chan).T))
	srt := ex.sortOfT(i.X.Type())
	key := fmt.Sprintf("LOGA0:%s", sortIdent(srt))
	as := "(Array Int " + srt + ")"
	ex.set(st, key, as, sSto(ex.get(st, key, as), n, ex.val(i.X).T))
	ex.set(st, "LOGN", "Int", "(+ "+n+" 1)")
}

func (ex *Exec) doRecv(i *ssa.UnOp) {
	ex.vc.assumptions["channel operations are not given a protocol: a send has no effect on memory, a receive yields an arbitrary value (blocking and wake-up order are not modelled)"] = true
	if i.CommaOk {
		ex.vals[i] = Val{Tup: []Val{{T: ex.vc.fresh(ex.pfx+i.Name(), ex.sortOfT(ex.typ(i.Type()).(*types.Tuple).At(0).Type()))}, {T: ex.vc.fresh(ex.pfx+i.Name()+"_ok", "Bool")}}}
		return
	}
	ex.vals[i] = Val{T: ex.vc.fresh(ex.pfx+i.Name(), ex.sortOfT(i.Type()))}
	// a receive may block: the clock moves on, and past the due time if the channel came from time.After
	// (TDUE of any other channel is an unconstrained value, which makes this no constraint for them)
	if _, used := ex.vc.compSort["TDUE"]; used {
		st := ex.curState
		n := ex.vc.fresh(ex.pfx+"now", "Int")
		ex.vc.assume("(and (>= " + n + " " + ex.get(st, "CLK", "Int") + ") (>= " + n + " " + sSel(ex.get(st, "TDUE", "(Array Int Int)"), ex.val(i.X).T) + "))")
		ex.set(st, "CLK", "Int", n)
		ex.vc.assumptions["<-time.After(d) returns only after the clock has advanced by at least d"] = true
	}
}

// doSelect: a blocking select takes one of its cases, nondeterministically; received values are arbitrary.
func (ex *Exec) doSelect(i *ssa.Select) {
	ex.vc.assumptions["channel operations are not given a protocol: a send has no effect on memory, a receive yields an arbitrary value (blocking and wake-up order are not modelled)"] = true
	idx := ex.vc.fresh(ex.pfx+i.Name()+"_case", "Int")
	lo := "0"
	if !i.Blocking {
		lo = "(- 1)"
	}
	ex.vc.assume(fmt.Sprintf("(and (<= %s %s) (< %s %d))", lo, idx, idx, len(i.States)))
	tup := []Val{{T: idx}, {T: ex.vc.fresh(ex.pfx+i.Name()+"_rok", "Bool")}}
	tt := ex.typ(i.Type()).(*types.Tuple)
	for k := 2; k < tt.Len(); k++ {
		tup = append(tup, Val{T: ex.vc.fresh(ex.pfx+i.Name()+"_rv", ex.sortOfT(tt.At(k).Type()))})
	}
	ex.vals[i] = Val{Tup: tup}
}

func isTimeAfterRecv(i *ssa.UnOp) *ssa.Call { return nil }

func (ex *Exec) chanClose(ch string) {}

var _ = strings.Contains

// muOwnerType: the guarded type whose field the mutex expression selects (&x.mu or x.mu for a pointer field);
// "" if the mutex is not a field of a named struct (a local mutex).
func (ex *Exec) muOwnerType(v ssa.Value) string {
	if u, ok := v.(*ssa.UnOp); ok && u.Op == token.MUL {
		v = u.X
	}
	fa, ok := v.(*ssa.FieldAddr)
	if !ok {
		return ""
	}
	pt, ok := ex.typ(fa.X.Type()).Underlying().(*types.Pointer)
	if !ok {
		return ""
	}
	if n, ok := types.Unalias(pt.Elem()).(*types.Named); ok {
		return namedKey(n)
	}
	return ""
}

// condLocker: the lock c.L of a *sync.Cond c.
func (ex *Exec) condLocker(c string) string {
	for _, p := range ex.vc.w.Prog.AllPackages() {
		if p.Pkg.Path() == "sync" {
			if tn, ok := p.Pkg.Scope().Lookup("Cond").(*types.TypeName); ok {
				n := tn.Type().(*types.Named)
				st := n.Underlying().(*types.Struct)
				for i := 0; i < st.NumFields(); i++ {
					if st.Field(i).Name() == "L" {
						k, srt, _ := ex.fieldKey(n, st, i)
						return sSel(ex.get(ex.curState, k, "(Array Int "+srt+")"), c)
					}
				}
			}
		}
	}
	return "0"
}

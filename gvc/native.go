package main

import (
	"fmt"
	"go/token"
	"go/types"
	"strings"

	"golang.org/x/tools/go/ssa"
)

// nativeCall: functions outside the module whose (assumed) semantics are built into the generator.
// Every use is recorded in vc.externs and reported as an assumption.
func (ex *Exec) nativeCall(key string, callee *ssa.Function, c *ssa.CallCommon, args []Val, pos token.Pos) (Val, bool) {
	vc := ex.vc
	note := func() { vc.externs[key+" (built-in model)"] = true }
	switch key {
	case "errors.New", "fmt.Errorf":
		note()
		// a fresh non-nil error value; no effect on library memory
		r := vc.fresh(ex.pfx+"err", "Int")
		vc.assume("(not (= " + r + " 0))")
		vc.assume(sNot(sSel(ex.allocComp(ex.curState), "(rootOf "+r+")")))
		return Val{T: r}, true
	case "fmt.Sprintf", "fmt.Sprint", "fmt.Sprintln":
		note()
		vc.needStr()
		r := vc.fresh(ex.pfx+"str", strSort)
		vc.assume("(>= (slen " + r + ") 0)")
		return Val{T: r}, true
	case "(*sync.RWMutex).Lock", "(*sync.Mutex).Lock":
		note()
		ex.curMuOwner = ex.muOwnerType(c.Args[0])
		ex.lockOp(args[0].T, 2, true, pos)
		return Val{}, true
	case "(*sync.RWMutex).RLock":
		note()
		ex.curMuOwner = ex.muOwnerType(c.Args[0])
		ex.lockOp(args[0].T, 1, true, pos)
		return Val{}, true
	case "(*sync.RWMutex).Unlock", "(*sync.Mutex).Unlock":
		note()
		ex.curMuOwner = ex.muOwnerType(c.Args[0])
		ex.lockOp(args[0].T, 2, false, pos)
		return Val{}, true
	case "(*sync.RWMutex).RUnlock":
		note()
		ex.curMuOwner = ex.muOwnerType(c.Args[0])
		ex.lockOp(args[0].T, 1, false, pos)
		return Val{}, true
	case "time.Now":
		note()
		// monotone ghost clock: each read returns a value >= the previous one
		st := ex.curState
		clk := ex.get(st, "CLK", "Int")
		n := vc.fresh(ex.pfx+"now", "Int")
		vc.assume("(>= " + n + " " + clk + ")")
		ex.set(st, "CLK", "Int", n)
		return Val{T: ex.mkTime(n)}, true
	case "(time.Time).UnixNano":
		note()
		return Val{T: ex.timeNanos(args[0].T)}, true
	case "(time.Time).Add":
		note()
		return Val{T: ex.mkTime("(+ " + ex.timeNanos(args[0].T) + " " + args[1].T + ")")}, true
	case "time.Since":
		note()
		st := ex.curState
		clk := ex.get(st, "CLK", "Int")
		n := vc.fresh(ex.pfx+"now", "Int")
		vc.assume("(>= " + n + " " + clk + ")")
		ex.set(st, "CLK", "Int", n)
		return Val{T: "(- " + n + " " + ex.timeNanos(args[0].T) + ")"}, true
	case "(*singleflight.Group).Do":
		// Assumed contract of x/sync singleflight (not verified): for one key, executions of the supplied functions
		// never overlap; Do either runs fn exactly once, synchronously, and returns what it returned (ran), or --
		// when an execution for the same key is already in flight -- does not run fn and returns that execution's
		// results (a value of the same dynamic type, produced by a function supplied under the same key).
		mc, ok := c.Args[2].(*ssa.MakeClosure)
		if !ok {
			break
		}
		note()
		vc.assumptions["singleflight.Group.Do: per key, supplied functions never run concurrently; a caller arriving during a flight gets that flight's (v, err) without running its own function; otherwise the function runs exactly once, synchronously (x/sync is outside the module: trusted)"] = true
		st0 := ex.curState
		ex.set(st0, "DOCNT", "Int", "(+ "+ex.get(st0, "DOCNT", "Int")+" 1)")
		ex.set(st0, "DOKEY", strSort, args[1].T)
		ran := vc.fresh(ex.pfx+"do_ran", "Bool")
		ex.set(st0, "DORAN", "Bool", ran)
		pre := ex.curState.clone()
		reach0 := ex.curReach
		ex.curReach = vc.define(ex.pfx+"do_reach", "Bool", sAnd(reach0, ran))
		fnc := mc.Fn.(*ssa.Function)
		r := ex.inlineCall(funcKey(fnc), fnc, ex.ts, mc, nil, pos)
		post := ex.curState
		// merge: the closure's effects only if it ran
		merged := newState()
		keys := map[string]bool{}
		for k := range post.m {
			keys[k] = true
		}
		for k := range pre.m {
			keys[k] = true
		}
		for _, k := range sortedKeys(keys) {
			srt := vc.compSort[k]
			merged.m[k] = vc.define("do_"+k, srt, sIte(ran, ex.get(post, k, srt), ex.get(pre, k, srt)))
		}
		ex.curState = merged
		ex.curReach = reach0
		if len(r.Tup) != 2 {
			vc.errorf("singleflight.Do: the supplied function must return (any, error)")
			break
		}
		vc.declareOnce("fn:dyntag", "(declare-fun dyntag (Int) Int)")
		dsh := vc.fresh(ex.pfx+"do_shared_v", "Int")
		esh := vc.fresh(ex.pfx+"do_shared_err", "Int")
		vc.assume(sImp(reach0, sAnd(sEq("(dyntag "+dsh+")", "(dyntag "+r.Tup[0].T+")"), sEq(sEq(dsh, "0"), sEq(r.Tup[0].T, "0")))))
		data := vc.define(ex.pfx+"do_v", "Int", sIte(ran, r.Tup[0].T, dsh))
		derr := vc.define(ex.pfx+"do_err", "Int", sIte(ran, r.Tup[1].T, esh))
		return Val{Tup: []Val{{T: data}, {T: derr}, {T: vc.fresh(ex.pfx+"do_sharedflag", "Bool")}}}, true
	case "strings.Repeat":
		note()
		vc.strPrelude()
		vc.declareOnce("str:cyc", `(declare-fun str_cyc (Str Int) Int)
(assert (forall ((s Str) (i Int)) (! (=> (and (<= 0 i) (< i (slen s))) (= (str_cyc s i) (select (sbytes s) i))) :pattern ((str_cyc s i)))))`)
		ex.nopanic("nopanic.repeat", pos, "(>= "+args[1].T+" 0)", "strings.Repeat: negative count")
		r := vc.fresh(ex.pfx+"rep", strSort)
		sl := "(slen " + args[0].T + ")"
		vc.assume(sImp(ex.curReach, sAnd("(str_wf "+r+")",
			sImp(sOr("(= "+args[1].T+" 0)", "(= "+sl+" 0)"), "(= (slen "+r+") 0)"),
			sImp("(>= "+sl+" 1)", "(>= (slen "+r+") "+args[1].T+")"),
			"(<= (slen "+r+") 72057594037927936)",
			fmt.Sprintf("(forall ((i Int)) (! (=> (and (<= 0 i) (< i (slen %s))) (= (select (sbytes %s) i) (str_cyc %s i))) :pattern ((select (sbytes %s) i))))", r, r, args[0].T, r))))
		vc.assumptions["strings.Repeat(s, n): n copies of s (length n*len(s), byte i is s[i mod len(s)], written str_cyc(s,i)); only the consequences len >= n (for non-empty s) and the first period are given to the solver"] = true
		return Val{T: r}, true
	case "math.Floor":
		note()
		return Val{T: "(to_real (to_int " + args[0].T + "))"}, true
	case "math.Ceil":
		note()
		return Val{T: "(- (to_real (to_int (- " + args[0].T + "))))"}, true
	case "strings.Index", "strings.LastIndex":
		note()
		// assumed contract: the first / last byte offset at which substr occurs in s, or -1
		vc.strPrelude()
		vc.declareOnce("str:occurs", `(declare-fun str_occurs (Str Str Int) Bool)
(assert (forall ((s Str) (t Str) (p Int)) (! (= (str_occurs s t p) (and (<= 0 p) (<= (+ p (slen t)) (slen s)) (forall ((i Int)) (! (=> (and (<= 0 i) (< i (slen t))) (= (select (sbytes s) (+ p i)) (select (sbytes t) i))) :pattern ((select (sbytes t) i)))))) :pattern ((str_occurs s t p)))))`)
		r := vc.fresh(ex.pfx+"stridx", "Int")
		sv, tv := args[0].T, args[1].T
		var ext string
		if key == "strings.Index" {
			ext = fmt.Sprintf("(forall ((q Int)) (! (=> (and (<= 0 q) (< q %s)) (not (str_occurs %s %s q))) :pattern ((str_occurs %s %s q))))", r, sv, tv, sv, tv)
		} else {
			ext = fmt.Sprintf("(forall ((q Int)) (! (=> (> q %s) (not (str_occurs %s %s q))) :pattern ((str_occurs %s %s q))))", r, sv, tv, sv, tv)
		}
		vc.assume(sImp(ex.curReach, sAnd("(>= "+r+" (- 1))", "(<= "+r+" (slen "+sv+"))",
			sImp("(>= "+r+" 0)", sAnd("(str_occurs "+sv+" "+tv+" "+r+")", ext)),
			sImp("(= "+r+" (- 1))", fmt.Sprintf("(forall ((q Int)) (! (not (str_occurs %s %s q)) :pattern ((str_occurs %s %s q))))", sv, tv, sv, tv)))))
		// two consequences at the positions callers care about (prefix / suffix), stated on ground terms so that
		// the solver has something to instantiate the definition of str_occurs with
		if key == "strings.Index" {
			vc.assume(sImp(ex.curReach, sImp("(str_occurs "+sv+" "+tv+" 0)", sEq(r, "0"))))
		} else {
			end := "(- (slen " + sv + ") (slen " + tv + "))"
			vc.assume(sImp(ex.curReach, sImp("(str_occurs "+sv+" "+tv+" "+end+")", sEq(r, end))))
		}
		vc.assumptions["strings.Index / strings.LastIndex return the first / last byte offset of an occurrence, or -1 if there is none"] = true
		return Val{T: r}, true
	case "(*strings.Builder).WriteString", "(*strings.Builder).WriteRune", "(*strings.Builder).WriteByte":
		note()
		vc.strPrelude()
		st := ex.curState
		sb := ex.get(st, "SB", "(Array Int Str)")
		add := args[1].T
		if key != "(*strings.Builder).WriteString" {
			add = vc.strFromRune(args[1].T)
		}
		ex.set(st, "SB", "(Array Int Str)", sSto(sb, args[0].T, vc.strConcat(sSel(sb, args[0].T), add)))
		vc.assumptions["strings.Builder accumulates exactly the strings written to it (a zero Builder is empty)"] = true
		n := vc.fresh(ex.pfx+"wn", "Int")
		if key == "(*strings.Builder).WriteByte" {
			return Val{T: "0"}, true
		}
		return Val{Tup: []Val{{T: n}, {T: "0"}}}, true
	case "(*strings.Builder).String":
		note()
		vc.strPrelude()
		return Val{T: sSel(ex.get(ex.curState, "SB", "(Array Int Str)"), args[0].T)}, true
	case "(*strings.Builder).Grow", "(*strings.Builder).Reset":
		note()
		if key == "(*strings.Builder).Reset" {
			st := ex.curState
			ex.set(st, "SB", "(Array Int Str)", sSto(ex.get(st, "SB", "(Array Int Str)"), args[0].T, vc.strEmpty()))
		}
		return Val{}, true
	case "unicode.ToLower", "unicode.ToUpper":
		note()
		fn := "uni_lower"
		if key == "unicode.ToUpper" {
			fn = "uni_upper"
		}
		vc.declareOnce("fn:"+fn, "(declare-fun "+fn+" (Int) Int)\n(assert (forall ((r Int)) (! (and (<= 0 ("+fn+" r)) (<= ("+fn+" r) 1114111)) :pattern (("+fn+" r)))))")
		vc.assumptions["unicode.ToLower / unicode.ToUpper are fixed functions of the rune (uninterpreted uni_lower / uni_upper)"] = true
		return Val{T: "(" + fn + " " + args[0].T + ")"}, true
	case "time.After":
		note()
		// a channel that delivers once the ghost clock has advanced by at least d
		r := ex.newRef("timerch")
		st := ex.curState
		ex.set(st, "TDUE", "(Array Int Int)", sSto(ex.get(st, "TDUE", "(Array Int Int)"), r, "(+ "+ex.get(st, "CLK", "Int")+" "+args[0].T+")"))
		return Val{T: r}, true
	case "time.Sleep":
		note()
		st := ex.curState
		n := vc.fresh(ex.pfx+"now", "Int")
		vc.assume("(>= " + n + " (+ " + ex.get(st, "CLK", "Int") + " " + args[0].T + "))")
		vc.assume("(>= " + n + " " + ex.get(st, "CLK", "Int") + ")")
		ex.set(st, "CLK", "Int", n)
		return Val{}, true
	case "rand.Int":
		note()
		r := vc.fresh(ex.pfx+"rand", "Int")
		vc.assume("(and (>= " + r + " 0) (<= " + r + " 9223372036854775807))")
		return Val{T: r}, true
	case "sort.Slice":
		// assumed contract of sort.Slice(x, less): the elements of x are permuted in place so that afterwards
		// less(j, i) is false for all i < j (less is evaluated on the permuted slice); nothing else changes.
		mi, ok1 := c.Args[0].(*ssa.MakeInterface)
		mc, ok2 := c.Args[1].(*ssa.MakeClosure)
		if !ok1 || !ok2 {
			break
		}
		sl, ok := ex.typ(mi.X.Type()).Underlying().(*types.Slice)
		if !ok || isStructType(sl.Elem()) {
			break
		}
		note()
		st := ex.curState
		s := ex.val(mi.X).T
		k, srt := ex.elemKey(sl.Elem())
		as := "(Array Int (Array Int " + srt + "))"
		E := ex.get(st, k, as)
		A := sSel(E, "(sarr "+s+")")
		A2 := vc.fresh(ex.pfx+"sorted", "(Array Int "+srt+")")
		vc.ctr++
		sp, spi := fmt.Sprintf("sortperm_%d", vc.ctr), fmt.Sprintf("sortinv_%d", vc.ctr)
		vc.decls = append(vc.decls, "(declare-fun "+sp+" (Int) Int)", "(declare-fun "+spi+" (Int) Int)")
		off, ln := "(soff "+s+")", "(slen_ "+s+")"
		vc.assume(sImp(ex.curReach, fmt.Sprintf("(forall ((a Int)) (! (=> (or (< a %s) (>= a (+ %s %s))) (= (select %s a) (select %s a))) :pattern ((select %s a))))", off, off, ln, A2, A, A2)))
		vc.assume(sImp(ex.curReach, fmt.Sprintf("(forall ((q Int)) (! (=> (and (<= 0 q) (< q %s)) (and (<= 0 (%s q)) (< (%s q) %s) (= (select %s (ix %s q)) (select %s (ix %s (%s q)))) (= (%s (%s q)) q))) :pattern ((%s q)) :pattern ((select %s (ix %s q)))))", ln, sp, sp, ln, A2, off, A, off, sp, spi, sp, sp, A2, off)))
		vc.assume(sImp(ex.curReach, fmt.Sprintf("(forall ((q Int)) (! (=> (and (<= 0 q) (< q %s)) (and (<= 0 (%s q)) (< (%s q) %s) (= (%s (%s q)) q))) :pattern ((%s q))))", ln, spi, spi, ln, sp, spi, spi)))
		vc.assume(sImp(ex.curReach, fmt.Sprintf("(forall ((q Int)) (! (=> (and (<= 0 q) (< q %s)) (= (select %s (ix %s q)) (select %s (ix %s (%s q))))) :pattern ((select %s (ix %s q)))))", ln, A, off, A2, off, spi, A, off)))
		ex.permCheckElem(k, "(sarr "+s+")", true)
		ex.set(st, k, as, sSto(E, "(sarr "+s+")", A2))
		if body, ok := ex.closureBody(mc, ex.curState, []string{"sj", "si"}); ok {
			vc.assume(sImp(ex.curReach, fmt.Sprintf("(forall ((si Int) (sj Int)) (=> (and (<= 0 si) (< si sj) (< sj %s)) (not %s)))", ln, body)))
		} else {
			vc.errorf("sort.Slice at %s: the less closure is not a single pure expression; sortedness is not assumed", vc.w.pos(pos))
		}
		vc.assumptions["sort.Slice leaves a permutation of the slice in which less(j,i) is false for all i<j; it writes nothing else"] = true
		return Val{}, true
	case "time.AfterFunc":
		note()
		// a ghost timer record: due time, function and whether it is still scheduled; the runtime runs the
		// function of a scheduled timer at some instant >= due (assumed contract of package time)
		r := ex.newRef("timer")
		st := ex.curState
		ex.set(st, "TMRDUE", "(Array Int Int)", sSto(ex.get(st, "TMRDUE", "(Array Int Int)"), r, "(+ "+ex.get(st, "CLK", "Int")+" "+args[0].T+")"))
		ex.set(st, "TMRFN", "(Array Int Int)", sSto(ex.get(st, "TMRFN", "(Array Int Int)"), r, args[1].T))
		ex.set(st, "TMRON", "(Array Int Bool)", sSto(ex.get(st, "TMRON", "(Array Int Bool)"), r, "true"))
		ex.set(st, "TMRN", "Int", "(+ "+ex.get(st, "TMRN", "Int")+" 1)")
		vc.assumptions["time.AfterFunc(d, f) schedules f to run once, not before d has elapsed; Timer.Stop unschedules it if it has not run yet"] = true
		return Val{T: r}, true
	case "time.NewTicker":
		note()
		// a fresh ticker whose channel C is a fresh, open channel that the runtime never closes
		tk := ex.newRef("ticker")
		tc := ex.newRef("tickerch")
		st := ex.curState
		ex.set(st, chClosed, aIntBool, sSto(ex.get(st, chClosed, aIntBool), tc, "false"))
		ex.set(st, chRecvN, aIntInt, sSto(ex.get(st, chRecvN, aIntInt), tc, "0"))
		if k, srt, ok := ex.stdFieldKey("time", "Ticker", "C"); ok {
			ex.set(st, k, "(Array Int "+srt+")", sSto(ex.get(st, k, "(Array Int "+srt+")"), tk, tc))
		}
		return Val{T: tk}, true
	case "(*time.Ticker).Stop", "(*time.Timer).Stop":
		note()
		if key == "(*time.Timer).Stop" {
			ex.nilCheck(args[0], pos)
			st := ex.curState
			ex.set(st, "TMRON", "(Array Int Bool)", sSto(ex.get(st, "TMRON", "(Array Int Bool)"), args[0].T, "false"))
			return Val{T: vc.fresh(ex.pfx+"stopped", "Bool")}, true
		}
		return Val{}, true
	case "(*sync.Cond).Broadcast", "(*sync.Cond).Signal":
		note()
		return Val{}, true
	case "(*sync.Cond).Wait":
		note()
		// Wait releases c.L, blocks, and re-acquires it: everything the lock guards may have been changed by other
		// goroutines (down to the lock invariant), and time has passed
		ex.nilCheck(args[0], pos)
		mu := ex.condLocker(args[0].T)
		ex.useHeld()
		ex.vc.oblige("lock.condwait", "lock", pos, ex.curReach, sEq(sSel(ex.get(ex.curState, "HELD", "(Array Int Int)"), mu), "2"), "sync.Cond.Wait is called with c.L held")
		ex.curMuOwner = "*"
		ex.concLeaveSection(mu, pos)
		st := ex.curState
		n := vc.fresh(ex.pfx+"now", "Int")
		vc.assume("(>= " + n + " " + ex.get(st, "CLK", "Int") + ")")
		ex.set(st, "CLK", "Int", n)
		ex.noLpCheck = true
		ex.concEnterSection(mu, pos, false)
		ex.noLpCheck = false
		vc.assumptions["sync.Cond.Wait atomically releases c.L, suspends, and re-locks c.L before returning"] = true
		return Val{}, true
	case "errors.Join":
		note()
		// nil iff every argument is nil; a joined error has no single wrapped error (errors.Unwrap gives nil)
		vc.declareOnce("fn:unwrapOf", "(declare-fun unwrapOf (Int) Int)")
		r := vc.fresh(ex.pfx+"joined", "Int")
		n := staticLen(c.Args[0])
		if n < 0 {
			break
		}
		E := ex.get(ex.curState, "E:Int", "(Array Int (Array Int Int))")
		var nils []string
		for k := 0; k < n; k++ {
			nils = append(nils, fmt.Sprintf("(= (select (select %s (sarr %s)) (ix (soff %s) %d)) 0)", E, args[0].T, args[0].T, k))
		}
		vc.assume(sImp(ex.curReach, sAnd(sEq(sEq(r, "0"), sAnd(nils...)), "(= (unwrapOf "+r+") 0)", sNot(sSel(ex.allocComp(ex.curState), "(rootOf "+r+")")))))
		return Val{T: r}, true
	case "errors.Unwrap":
		note()
		vc.declareOnce("fn:unwrapOf", "(declare-fun unwrapOf (Int) Int)")
		return Val{T: sIte(sEq(args[0].T, "0"), "0", "(unwrapOf "+args[0].T+")")}, true
	case "runtime.SetFinalizer":
		note()
		return Val{}, true
	}
	return Val{}, false
}

// time.Time is modelled by its nanosecond reading of the ghost clock.
func (ex *Exec) mkTime(n string) string {
	t := types.Type(nil)
	for _, p := range ex.vc.w.Prog.AllPackages() {
		if p.Pkg.Path() == "time" {
			t = p.Pkg.Scope().Lookup("Time").Type()
		}
	}
	if t == nil {
		return n
	}
	srt := ex.vc.sortOf(t)
	ex.vc.declareOnce("fn:mktime", fmt.Sprintf("(declare-fun mk_time (Int) %s)\n(declare-fun time_ns (%s) Int)\n(assert (forall ((n Int)) (! (= (time_ns (mk_time n)) n) :pattern ((mk_time n)))))", srt, srt))
	return "(mk_time " + n + ")"
}

func (ex *Exec) timeNanos(t string) string {
	ex.mkTime("0")
	return "(time_ns " + t + ")"
}

// ---------------------------------------------------------------- locks (sequential bookkeeping; permissions in locks.go)

func (ex *Exec) lockOp(mu string, mode int, acquire bool, pos token.Pos) {
	if !strings.HasPrefix(mu, "(sub ") {
		ex.nopanic("nopanic.nil", pos, "(not (= "+mu+" 0))", "mutex pointer is not nil")
	}
	ex.useHeld()
	st := ex.curState
	held := ex.get(st, "HELD", "(Array Int Int)")
	cur := sSel(held, mu)
	if acquire {
		ex.vc.oblige("lock.acquire", "lock", pos, ex.curReach, sEq(cur, "0"), "lock is not already held by this call (no self-deadlock)")
		ex.vc.assume(sImp(ex.curReach, sEq(cur, "0")))
		ex.set(st, "HELD", "(Array Int Int)", sSto(held, mu, fmt.Sprint(mode)))
		ex.afterAcquire(mu, mode, pos)
	} else {
		ex.beforeRelease(mu, mode, pos)
		ex.vc.oblige("lock.release", "lock", pos, ex.curReach, sEq(cur, fmt.Sprint(mode)), "unlock matches a held lock of the same mode")
		ex.vc.assume(sImp(ex.curReach, sEq(cur, fmt.Sprint(mode))))
		ex.set(st, "HELD", "(Array Int Int)", sSto(held, mu, "0"))
	}
}

// ---------------------------------------------------------------- interfaces

func (ex *Exec) invokeCall(v *ssa.Call, c *ssa.CallCommon, pos token.Pos) Val {
	recv := ex.val(c.Value)
	it := ex.typ(c.Value.Type())
	name := c.Method.Name()
	key := ""
	if n, ok := types.Unalias(it).(*types.Named); ok {
		key = "(" + namedKey(n) + ")." + name
	} else {
		key = "(interface)." + name
	}
	if key == "(sync.Locker).Lock" || key == "(sync.Locker).Unlock" {
		ex.vc.externs["sync.Locker (a *sync.Mutex behind the interface: built-in lock model)"] = true
		ex.curMuOwner = "*"
		ex.lockOp(recv.T, 2, name == "Lock", pos)
		return Val{}
	}
	if key == "(error).Error" {
		ex.vc.needStr()
		return Val{T: ex.vc.fresh(ex.pfx+"errstr", strSort)}
	}
	spec := ex.vc.w.Contracts.Funcs[key]
	if spec == nil {
		ex.vc.errorf("interface call %s at %s has no contract", key, ex.vc.w.pos(pos))
		sig := c.Method.Type().(*types.Signature)
		return ex.havocResult(ex.typ(sig).(*types.Signature))
	}
	return ex.ifaceContractCall(key, spec, c, recv, pos)
}

func (ex *Exec) ifaceContractCall(key string, spec *FuncSpec, c *ssa.CallCommon, recv Val, pos token.Pos) Val {
	ex.vc.usedSpecs[key] = true
	ex.vc.externs[key+" (interface contract)"] = true
	sig := ex.typ(c.Method.Type()).(*types.Signature)
	pre := ex.curState
	ev := ex.newEval(pre, pre)
	ev.vars["self"] = TV{T: recv.T, Ty: goVT(ex.typ(c.Value.Type()))}
	args := ex.args(c)
	for i := 0; i < sig.Params().Len() && i < len(args); i++ {
		ev.vars[fmt.Sprintf("arg%d", i)] = TV{T: args[i].T, Ty: goVT(sig.Params().At(i).Type())}
	}
	for k, r := range spec.Requires {
		t := ev.evalBool(r.Expr)
		ex.vc.oblige(fmt.Sprintf("call.%s.requires[%d]", c.Method.Name(), k+1), "", pos, ex.curReach, t, "precondition of "+key)
	}
	post := pre.clone()
	ex.curState = post
	for _, m := range spec.Modifies {
		for _, loc := range splitTop(m.Text, ',') {
			for _, tg := range ev.modTargets(loc) {
				cur := ex.get(post, tg.key, tg.sort)
				fresh := ex.vc.fresh("hv_"+tg.key, tg.sort)
				if tg.all {
					ex.set(post, tg.key, tg.sort, fresh)
				} else {
					ex.set(post, tg.key, tg.sort, sSto(cur, tg.idx, sSel(fresh, tg.idx)))
				}
			}
		}
	}
	pev := ex.newEval(post, pre)
	for k, v := range ev.vars {
		pev.vars[k] = v
	}
	var tup []Val
	for i := 0; i < sig.Results().Len(); i++ {
		rt := sig.Results().At(i).Type()
		n := ex.vc.fresh(ex.pfx+"ir", ex.vc.sortOf(rt))
		tup = append(tup, Val{T: n})
		pev.vars[fmt.Sprintf("result%d", i)] = TV{T: n, Ty: goVT(rt)}
		if i == 0 {
			pev.vars["result"] = TV{T: n, Ty: goVT(rt)}
		}
	}
	for _, e := range spec.Ensures {
		ex.vc.assume(sImp(ex.curReach, pev.evalBool(e.Expr)))
	}
	switch len(tup) {
	case 0:
		return Val{}
	case 1:
		return tup[0]
	}
	return Val{Tup: tup}
}

// box/unbox of interface values: box_<type>(payload) is injective, non-nil, and carries a dynamic type tag.
func (ex *Exec) boxFn(t types.Type) (string, string) {
	t = ex.typ(t)
	srt := ex.vc.sortOf(t)
	id := sanitize(types.TypeString(t, func(p *types.Package) string { return p.Name() }))
	fn := "box_" + id
	ex.vc.declareOnce("fn:dyntag", "(declare-fun dyntag (Int) Int)")
	tag := "tag_" + id
	if !ex.vc.declared["fn:"+fn] {
		ex.vc.declareOnce("fn:"+fn, fmt.Sprintf("(declare-fun %s (%s) Int)\n(declare-fun un%s (Int) %s)\n(declare-const %s Int)\n(assert (forall ((x %s)) (! (and (not (= (%s x) 0)) (= (un%s (%s x)) x) (= (dyntag (%s x)) %s)) :pattern ((%s x)))))",
			fn, srt, fn, srt, tag, srt, fn, fn, fn, fn, tag, fn))
		// distinct concrete types have distinct tags; type parameters may coincide with anything
		if _, isTP := types.Unalias(t).(*types.TypeParam); !isTP {
			for _, other := range ex.vc.concreteTags {
				ex.vc.decls = append(ex.vc.decls, fmt.Sprintf("(assert (not (= %s %s)))", tag, other))
			}
			ex.vc.concreteTags = append(ex.vc.concreteTags, tag)
		}
	}
	return fn, tag
}

func (ex *Exec) doTypeAssert(i *ssa.TypeAssert) {
	x := ex.val(i.X)
	at := ex.typ(i.AssertedType)
	_, isTP := types.Unalias(at).(*types.TypeParam)
	if _, isIface := at.Underlying().(*types.Interface); isIface && !isTP {
		// interface-to-interface: value unchanged; success unknown unless non-nil any
		ok := ex.vc.fresh(ex.pfx+i.Name()+"_ok", "Bool")
		ex.vc.assume(sImp(ok, "(not (= "+x.T+" 0))"))
		if i.CommaOk {
			ex.vals[i] = Val{Tup: []Val{{T: x.T}, {T: ok}}}
		} else {
			ex.nopanic("nopanic.typeassert", i.Pos(), ok, "type assertion succeeds")
			ex.vals[i] = Val{T: x.T}
		}
		return
	}
	fn, tag := ex.boxFn(at)
	ok := ex.vc.define(ex.pfx+i.Name()+"_ok", "Bool", sAnd("(not (= "+x.T+" 0))", sEq("(dyntag "+x.T+")", tag)))
	payload := ex.vc.define(ex.pfx+i.Name()+"_v", ex.vc.sortOf(at), sIte(ok, "(un"+fn+" "+x.T+")", ex.vc.zeroOf(at)))
	ex.vc.assume(sImp(ex.curReach, ex.typeInv(payload, at, ex.curState)))
	if i.CommaOk {
		ex.vals[i] = Val{Tup: []Val{{T: payload}, {T: ok}}}
	} else {
		ex.nopanic("nopanic.typeassert", i.Pos(), ok, "type assertion succeeds")
		ex.vals[i] = Val{T: payload}
	}
}

func (ex *Exec) convertOther(i *ssa.Convert, from, to types.Type, x Val) {
	vc := ex.vc
	switch {
	case ex.isStringy(to) && ex.isNumeric(from):
		// string(rune) / string(byte): UTF-8 encoding of the code point
		ex.bind(i, vc.strFromRune(x.T))
	case ex.isStringy(to):
		if sl, ok := from.Underlying().(*types.Slice); ok {
			ex.bind(i, ex.strFromSlice(x.T, sl))
			return
		}
		vc.errorf("unsupported conversion %s -> %s", from, to)
	case ex.isStringy(from):
		if sl, ok := to.Underlying().(*types.Slice); ok {
			ex.bind(i, ex.sliceFromStr(x.T, sl))
			return
		}
		vc.errorf("unsupported conversion %s -> %s", from, to)
	default:
		if types.Identical(from.Underlying(), to.Underlying()) {
			ex.vals[i] = x
			return
		}
		vc.errorf("unsupported conversion %s -> %s at %s", from, to, vc.w.pos(i.Pos()))
		ex.vals[i] = Val{T: vc.fresh(ex.pfx+i.Name(), ex.sortOfT(i.Type()))}
	}
}

// ---------------------------------------------------------------- goroutines and channels (named special cases)

// Channel state lives in heap components indexed by the channel reference (so frames, loop cuts and `modifies
// closed(ch)` work as for fields):
//   F:chan.closed   the channel has been closed
//   F:chan.recvn    number of values received from it so far (receives that yield ok=false do not count)
//   F:chan.reg      a producer goroutine has been registered for it by this activation (go-stream)
//   F:chan.sn       number of values that producer sends before it closes the channel
//   F:chan.sv:<S>   those values, in order
const (
	chClosed = "F:chan.closed"
	chRecvN  = "F:chan.recvn"
	chReg    = "F:chan.reg"
	chSN     = "F:chan.sn"
	aIntBool = "(Array Int Bool)"
	aIntInt  = "(Array Int Int)"
)

func chSV(srt string) (string, string) {
	return "F:chan.sv:" + sortIdent(srt), "(Array Int (Array Int " + srt + "))"
}

func (ex *Exec) doMakeChan(i *ssa.MakeChan) {
	r := ex.newRef("chan")
	ex.bind(i, r)
	st := ex.curState
	ex.set(st, chClosed, aIntBool, sSto(ex.get(st, chClosed, aIntBool), r, "false"))
	ex.set(st, chRecvN, aIntInt, sSto(ex.get(st, chRecvN, aIntInt), r, "0"))
	ex.set(st, chReg, aIntBool, sSto(ex.get(st, chReg, aIntBool), r, "false"))
}

func (ex *Exec) doGo(i *ssa.Go) {
	// `go f(args)`: the new goroutine runs concurrently with this one and is verified as a function of its own
	// (started with no lock held). Its preconditions are obligations of the spawning call.
	ex.vc.assumptions["a goroutine started by `go` is verified separately (as a function entered with no lock held); its preconditions are checked where it is started and must be stable under the other goroutines"] = true
	top := ex.topExec()
	if top.vc.spec != nil {
		st := ex.curState
		ex.set(st, "GOCNT", "Int", "(+ "+ex.get(st, "GOCNT", "Int")+" 1)")
		if s := top.vc.spec.Opts["go-stream"]; s != "" {
			ex.goStream(i, s)
			return
		}
	}
	ex.goRequires(i)
}

// goTarget: the function started by a go statement and its closure, if static.
func (ex *Exec) goTarget(c *ssa.CallCommon) (*ssa.Function, *ssa.MakeClosure) {
	if c.IsInvoke() {
		return nil, nil
	}
	switch callee := c.Value.(type) {
	case *ssa.Function:
		return callee, nil
	case *ssa.MakeClosure:
		return callee.Fn.(*ssa.Function), callee
	}
	fv := ex.val(c.Value)
	if fv.Clo != nil {
		return fv.Clo.Fn.(*ssa.Function), fv.Clo
	}
	return fv.Fn, nil
}

// goRequires: the preconditions of a goroutine under contract are obligations at the go statement.
func (ex *Exec) goRequires(i *ssa.Go) {
	callee, clo := ex.goTarget(&i.Call)
	if callee == nil {
		return
	}
	origin := callee
	if callee.Origin() != nil {
		origin = callee.Origin()
	}
	key := funcKey(origin)
	spec := ex.vc.w.Contracts.Funcs[key]
	if spec == nil || len(spec.GhostParam) > 0 {
		return
	}
	ts := TSubst{}
	if tps := origin.TypeParams(); tps != nil && len(callee.TypeArgs()) == tps.Len() {
		for k := 0; k < tps.Len(); k++ {
			ts[tps.At(k)] = ex.typ(callee.TypeArgs()[k])
		}
	} else if origin.Parent() != nil {
		for k, t := range ex.ts {
			ts[k] = t
		}
	}
	_ = clo
	ex.vc.usedSpecs[key] = true
	pre := ex.curState
	ev := ex.newEval(pre, pre)
	ev.ts, ev.fn, ev.pkg = ts, origin, pkgOf(origin)
	args := ex.args(&i.Call)
	for k, p := range origin.Params {
		if k < len(args) {
			ev.vars[p.Name()] = TV{T: args[k].T, Ty: goVT(ts.apply(p.Type())), Loc: args[k].Loc}
		}
	}
	for k, r := range spec.Requires {
		if r.Tag == "seq" {
			continue // a goroutine runs concurrently with everything else: only its mode-independent and [conc] preconditions apply
		}
		t := ev.evalBool(r.Expr)
		ex.vc.oblige(fmt.Sprintf("go.%s.requires[%d]", origin.Name(), k+1), "", i.Pos(), ex.curReach, t, "precondition of the goroutine "+key+": "+r.Text)
	}
}

// goStream: the function under verification declares (opt go-stream <chan expr>) that the goroutine it starts is
// the only sender on that channel and that it is the only receiver. The goroutine's contract is applied like a call
// against a forked call log: what it sends (its log) becomes the stream of the channel, which the receives of this
// activation then consume in order. Sound if the goroutine writes nothing this activation reads (its modifies clause
// may name closed(ch) only - checked here) and this activation writes nothing the goroutine reads between the go
// statement and the last receive (the callback-does-not-touch-the-container assumption covers the callbacks).
func (ex *Exec) goStream(i *ssa.Go, chanExpr string) {
	vc := ex.vc
	vc.assumptions["go-stream: Go channel semantics (an unbuffered or buffered channel delivers to a single receiver exactly the values of its single sender, in order; a receive on a closed, drained channel yields ok=false) are trusted; the goroutine's contract is applied at the go statement"] = true
	callee, _ := ex.goTarget(&i.Call)
	if callee == nil {
		vc.errorf("go-stream: the go statement at %s has no static target", vc.w.pos(i.Pos()))
		return
	}
	origin := callee
	if callee.Origin() != nil {
		origin = callee.Origin()
	}
	spec := vc.w.Contracts.Funcs[funcKey(origin)]
	if spec == nil || !spec.CallLog {
		vc.errorf("go-stream: %s needs a contract with calllog (its sends are its stream)", funcKey(origin))
		return
	}
	e, err := parseExpr(chanExpr)
	if err != nil {
		vc.errorf("go-stream: %v", err)
		return
	}
	cev := ex.topExec().evalHere()
	cev.st = ex.curState
	chv := cev.rval(cev.eval(e))
	ch := chv.T
	var elemSort string
	if chv.Ty.Go != nil {
		if ct, ok := chv.Ty.Go.Underlying().(*types.Chan); ok {
			elemSort = ex.sortOfT(ct.Elem())
		}
	}
	if elemSort == "" {
		vc.errorf("go-stream: %s is not a channel", chanExpr)
		return
	}
	// the goroutine may modify nothing but the closed flag of its channel
	for _, m := range spec.Modifies {
		for _, loc := range splitTop(m.Text, ',') {
			loc = strings.TrimSpace(loc)
			if loc == "" || loc == "nothing" || loc == "log" || (strings.HasPrefix(loc, "closed(") && strings.HasSuffix(loc, ")")) {
				continue
			}
			vc.errorf("go-stream: goroutine %s modifies %s; only closed(<its channel>) is allowed", funcKey(origin), loc)
		}
	}
	st := ex.curState
	// the channel is fresh: nothing received yet, open, no producer
	ex.vc.oblige("go.stream.fresh", "", i.Pos(), ex.curReach, sAnd(
		sEq(sSel(ex.get(st, chRecvN, aIntInt), ch), "0"),
		sNot(sSel(ex.get(st, chClosed, aIntBool), ch)),
		sNot(sSel(ex.get(st, chReg, aIntBool), ch))), "the channel handed to the producer goroutine is open, unused and has no other producer")
	// fork the call log
	saved := map[string]string{}
	for _, key := range sortedKeys(vc.compKeys()) {
		if strings.HasPrefix(key, "LOG") {
			saved[key] = ex.get(st, key, vc.compSort[key])
		}
	}
	savedN := ex.get(st, "LOGN", "Int")
	savedF := ex.get(st, "LOGF", aIntInt)
	ex.set(st, "LOGN", "Int", "0")
	closedBefore := ex.get(st, chClosed, aIntBool)
	// the goroutine's critical sections are not sections of this activation: old() and the single-writer
	// bookkeeping of the spawning call are left as they were
	oldSnap := st.old
	wroteBefore := ""
	if vc.conc {
		wroteBefore = ex.get(st, "WROTE", "Bool")
	}
	ex.doCall(nil, &i.Call, i.Pos())
	post := ex.curState
	post.old = oldSnap
	if vc.conc {
		ex.set(post, "WROTE", "Bool", wroteBefore)
	}
	pn := ex.get(post, "LOGN", "Int")
	pf := ex.get(post, "LOGF", aIntInt)
	pak := "LOGA0:" + sortIdent(elemSort)
	pa := ex.get(post, pak, "(Array Int "+elemSort+")")
	// every entry of the goroutine's log is a send on this channel; it closes the channel and no other
	q := vc.fresh("q", "Int")
	_ = q
	ex.vc.oblige("go.stream.only", "", i.Pos(), ex.curReach, fmt.Sprintf("(and (<= 0 %s) (forall ((q Int)) (! (=> (and (<= 0 q) (< q %s)) (= (select %s q) %s)) :pattern ((select %s q)))))", pn, pn, pf, ch, pf), "the producer goroutine only sends on its channel")
	closedAfter := ex.get(post, chClosed, aIntBool)
	ex.vc.oblige("go.stream.closes", "", i.Pos(), ex.curReach, sSel(closedAfter, ch), "the producer goroutine closes its channel when it is done (otherwise the consumer blocks forever)")
	_ = closedBefore
	// register the stream
	svk, svs := chSV(elemSort)
	ex.set(post, chSN, aIntInt, sSto(ex.get(post, chSN, aIntInt), ch, pn))
	ex.set(post, svk, svs, sSto(ex.get(post, svk, svs), ch, pa))
	ex.set(post, chReg, aIntBool, sSto(ex.get(post, chReg, aIntBool), ch, "true"))
	// back to this activation's own log
	for key, t := range saved {
		ex.set(post, key, vc.compSort[key], t)
	}
	ex.set(post, "LOGN", "Int", savedN)
	ex.set(post, "LOGF", aIntInt, savedF)
}

// A send panics on a closed channel. Under `calllog` a send is recorded like a callback invocation: logf(q) is the
// channel, loga0(q, w) the value sent -- this lets a contract state WHAT a function sends and in which order.
func (ex *Exec) doSend(i *ssa.Send) {
	st := ex.curState
	ch := ex.val(i.Chan).T
	ex.nopanic("nopanic.send-closed", i.Pos(), sNot(sSel(ex.get(st, chClosed, aIntBool), ch)), "send on a closed channel")
	top := ex.topExec()
	if top.vc.spec == nil || !top.vc.spec.CallLog {
		ex.vc.assumptions["a send outside call-log mode has no effect on the verified state (who receives it, and when, is not modelled)"] = true
		return
	}
	n := ex.get(st, "LOGN", "Int")
	ex.set(st, "LOGF", "(Array Int Int)", sSto(ex.get(st, "LOGF", "(Array Int Int)"), n, ch))
	srt := ex.sortOfT(i.X.Type())
	key := fmt.Sprintf("LOGA0:%s", sortIdent(srt))
	as := "(Array Int " + srt + ")"
	ex.set(st, key, as, sSto(ex.get(st, key, as), n, ex.val(i.X).T))
	ex.set(st, "LOGN", "Int", "(+ "+n+" 1)")
}

// recvFrom: the protocol of one receive from ch yielding (v, ok) under the path condition cond.
//   - ok=false only on a closed channel, and then v is the zero value;
//   - if a producer stream is registered for ch (go-stream), the k-th receive yields its k-th value, ok=false exactly
//     when the stream is exhausted, and being exhausted without the channel closed is a deadlock (obligation);
//   - the receive counter of ch grows by one iff ok.
func (ex *Exec) recvFrom(ch, v, ok, cond string, et types.Type, pos token.Pos) {
	st := ex.curState
	srt := ex.sortOfT(et)
	k := sSel(ex.get(st, chRecvN, aIntInt), ch)
	closed := sSel(ex.get(st, chClosed, aIntBool), ch)
	reg := sSel(ex.get(st, chReg, aIntBool), ch)
	sn := sSel(ex.get(st, chSN, aIntInt), ch)
	svk, svs := chSV(srt)
	sv := sSel(sSel(ex.get(st, svk, svs), ch), k)
	guard := sAnd(ex.curReach, cond)
	ex.vc.oblige("recv.no-deadlock", "", pos, guard, sImp(reg, sOr("(< "+k+" "+sn+")", closed)), "a receive from a channel whose producer has sent everything finds the channel closed (otherwise it blocks forever)")
	ex.vc.assume(sImp(guard, sAnd(
		sImp(sNot(ok), sAnd(closed, sEq(v, ex.vc.zeroOf(ex.typ(et))))),
		sImp(reg, sAnd(sEq(ok, "(< "+k+" "+sn+")"), sImp(ok, sEq(v, sv)))))))
	rn := ex.get(st, chRecvN, aIntInt)
	ex.set(st, chRecvN, aIntInt, sIte(sAnd(cond, ok), sSto(rn, ch, "(+ "+k+" 1)"), rn))
}

func (ex *Exec) doRecv(i *ssa.UnOp) {
	ex.vc.assumptions["channel receives: a value received from a channel without a registered producer stream is arbitrary (blocking and wake-up order are not modelled)"] = true
	ch := ex.val(i.X).T
	var et types.Type
	if ct, ok := ex.typ(i.X.Type()).Underlying().(*types.Chan); ok {
		et = ct.Elem()
	}
	var v, ok string
	if i.CommaOk {
		v = ex.vc.fresh(ex.pfx+i.Name(), ex.sortOfT(ex.typ(i.Type()).(*types.Tuple).At(0).Type()))
		ok = ex.vc.fresh(ex.pfx+i.Name()+"_ok", "Bool")
		ex.vals[i] = Val{Tup: []Val{{T: v}, {T: ok}}}
	} else {
		v = ex.vc.fresh(ex.pfx+i.Name(), ex.sortOfT(i.Type()))
		ok = ex.vc.fresh(ex.pfx+i.Name()+"_ok", "Bool")
		ex.vals[i] = Val{T: v}
	}
	if et != nil {
		ex.recvFrom(ch, v, ok, "true", et, i.Pos())
	}
	// a receive may block: the clock moves on, and past the due time if the channel came from time.After
	// (TDUE of any other channel is an unconstrained value, which makes this no constraint for them)
	if _, used := ex.vc.compSort["TDUE"]; used && !i.CommaOk {
		st := ex.curState
		n := ex.vc.fresh(ex.pfx+"now", "Int")
		ex.vc.assume("(and (>= " + n + " " + ex.get(st, "CLK", "Int") + ") (>= " + n + " " + sSel(ex.get(st, "TDUE", "(Array Int Int)"), ex.val(i.X).T) + "))")
		ex.set(st, "CLK", "Int", n)
		ex.vc.assumptions["<-time.After(d) returns only after the clock has advanced by at least d"] = true
	}
}

// doSelect: a blocking select takes one of its cases, nondeterministically; a receive case follows the receive
// protocol of its channel.
func (ex *Exec) doSelect(i *ssa.Select) {
	ex.vc.assumptions["select takes any of its cases (readiness and fairness are not modelled)"] = true
	idx := ex.vc.fresh(ex.pfx+i.Name()+"_case", "Int")
	lo := "0"
	if !i.Blocking {
		lo = "(- 1)"
	}
	ex.vc.assume(fmt.Sprintf("(and (<= %s %s) (< %s %d))", lo, idx, idx, len(i.States)))
	rok := ex.vc.fresh(ex.pfx+i.Name()+"_rok", "Bool")
	tup := []Val{{T: idx}, {T: rok}}
	tt := ex.typ(i.Type()).(*types.Tuple)
	for k := 2; k < tt.Len(); k++ {
		tup = append(tup, Val{T: ex.vc.fresh(ex.pfx+i.Name()+"_rv", ex.sortOfT(tt.At(k).Type()))})
	}
	ex.vals[i] = Val{Tup: tup}
	r := 2
	for k, s := range i.States {
		cond := fmt.Sprintf("(= %s %d)", idx, k)
		ch := ex.val(s.Chan).T
		if s.Dir == types.RecvOnly {
			ct, ok := ex.typ(s.Chan.Type()).Underlying().(*types.Chan)
			if ok && r < len(tup) {
				ex.recvFrom(ch, tup[r].T, rok, cond, ct.Elem(), s.Pos)
			}
			r++
		} else {
			ex.vc.oblige("nopanic.send-closed", "", s.Pos, sAnd(ex.curReach, cond), sNot(sSel(ex.get(ex.curState, chClosed, aIntBool), ch)), "send on a closed channel")
		}
	}
}

// chanClose: close(ch) panics on a nil or closed channel.
func (ex *Exec) chanClose(ch string, pos token.Pos) {
	st := ex.curState
	cl := ex.get(st, chClosed, aIntBool)
	ex.nopanic("nopanic.close", pos, sAnd(sNot(sEq(ch, "0")), sNot(sSel(cl, ch))), "close of a nil or closed channel")
	ex.set(st, chClosed, aIntBool, sSto(cl, ch, "true"))
}

func isTimeAfterRecv(i *ssa.UnOp) *ssa.Call { return nil }


var _ = strings.Contains

// muOwnerType: the guarded type whose field the mutex expression selects (&x.mu or x.mu for a pointer field);
// "" if the mutex is not a field of a named struct (a local mutex).
func (ex *Exec) muOwnerType(v ssa.Value) string {
	if u, ok := v.(*ssa.UnOp); ok && u.Op == token.MUL {
		v = u.X
	}
	fa, ok := v.(*ssa.FieldAddr)
	if !ok {
		return ""
	}
	pt, ok := ex.typ(fa.X.Type()).Underlying().(*types.Pointer)
	if !ok {
		return ""
	}
	if n, ok := types.Unalias(pt.Elem()).(*types.Named); ok {
		return namedKey(n)
	}
	return ""
}

// stdFieldKey: component key and sort of a field of a standard-library struct type.
func (ex *Exec) stdFieldKey(pkg, typ, field string) (string, string, bool) {
	for _, p := range ex.vc.w.Prog.AllPackages() {
		if p.Pkg.Path() == pkg {
			if tn, ok := p.Pkg.Scope().Lookup(typ).(*types.TypeName); ok {
				n := tn.Type().(*types.Named)
				st, ok := n.Underlying().(*types.Struct)
				if !ok {
					return "", "", false
				}
				for i := 0; i < st.NumFields(); i++ {
					if st.Field(i).Name() == field {
						k, srt, _ := ex.fieldKey(n, st, i)
						return k, srt, true
					}
				}
			}
		}
	}
	return "", "", false
}

// condLocker: the lock c.L of a *sync.Cond c.
func (ex *Exec) condLocker(c string) string {
	for _, p := range ex.vc.w.Prog.AllPackages() {
		if p.Pkg.Path() == "sync" {
			if tn, ok := p.Pkg.Scope().Lookup("Cond").(*types.TypeName); ok {
				n := tn.Type().(*types.Named)
				st := n.Underlying().(*types.Struct)
				for i := 0; i < st.NumFields(); i++ {
					if st.Field(i).Name() == "L" {
						k, srt, _ := ex.fieldKey(n, st, i)
						return sSel(ex.get(ex.curState, k, "(Array Int "+srt+")"), c)
					}
				}
			}
		}
	}
	return "0"
}

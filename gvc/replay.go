package main

import (
	"bytes"
	"context"
	"encoding/json"
	"fmt"
	"os"
	"os/exec"
	"path/filepath"
	"sort"
	"strings"
	"time"
)

type ReplayFile struct {
	Property   string `json:"property"`
	Obligation string `json:"obligation"`
	Function   string `json:"function"`
	At         string `json:"at"`
	What       string `json:"what"`
	Status     string `json:"status"` // refuted | undecided
	Solver     string `json:"solver,omitempty"`
	SolverOut  string `json:"solver_output"`
	Model      string `json:"model,omitempty"`
	Package    string `json:"package,omitempty"`
	GoTest     string `json:"go_test,omitempty"`
	Observed   string `json:"observed,omitempty"`
	Verdict    string `json:"verdict"` // confirmed | no-failing-input-found
	Note       string `json:"note"`
}

var overlayTimeout = 180 * time.Second

func goEnv() []string {
	return append(os.Environ(), "GOFLAGS=-mod=mod", "GOPROXY=off", "GOSUMDB=off", "GOTOOLCHAIN=local")
}

// runOverlayTest compiles testSrc as an extra in-package _test.go file of pkgDir (relative to the repo)
// through -overlay (nothing is written into /repo) and runs the tests matching runRe.
// Returns per-test verdicts ("pass"/"fail") and the combined output.
func runOverlayTest(pkgDir, testSrc, runRe, wd string, extra ...string) (map[string]string, string, error) {
	repo := repoDir()
	abs := filepath.Join(repo, pkgDir, "zz_gvc_overlay_test.go")
	src := filepath.Join(wd, fmt.Sprintf("ovl_%d_%s.go", os.Getpid(), sanitize(pkgDir)))
	if err := os.WriteFile(src, []byte(testSrc), 0o644); err != nil {
		return nil, "", err
	}
	ov := map[string]any{"Replace": map[string]string{abs: src}}
	ovb, _ := json.Marshal(ov)
	ovf := filepath.Join(wd, fmt.Sprintf("ov_%d_%s.json", os.Getpid(), sanitize(pkgDir)))
	os.WriteFile(ovf, ovb, 0o644)
	ctx, cancel := context.WithTimeout(context.Background(), overlayTimeout)
	defer cancel()
	pkgArg := "./" + pkgDir
	args := []string{"test", "-overlay", ovf, "-vet=off", "-count=1", "-timeout", "60s", "-run", runRe, "-json"}
	args = append(args, extra...)
	args = append(args, pkgArg)
	cmd := exec.CommandContext(ctx, "go", args...)
	cmd.Dir = repo
	cmd.Env = goEnv()
	var out bytes.Buffer
	cmd.Stdout = &out
	cmd.Stderr = &out
	_ = cmd.Run()
	res := map[string]string{}
	var human strings.Builder
	for _, line := range strings.Split(out.String(), "\n") {
		var evn struct {
			Action, Test, Output string
		}
		if json.Unmarshal([]byte(line), &evn) != nil {
			if strings.TrimSpace(line) != "" {
				human.WriteString(line + "\n")
			}
			continue
		}
		if evn.Output != "" {
			human.WriteString(evn.Output)
		}
		if evn.Test != "" && (evn.Action == "pass" || evn.Action == "fail") {
			res[evn.Test] = evn.Action
		}
	}
	return res, human.String(), nil
}

// runWitnesses replays the witness of every listed finding on the real code.
// "fails" = the defect is still there; "passes" = it is gone.
func runWitnesses(kfs []KnownFinding, wd string) map[string]string {
	out := map[string]string{}
	byPkg := map[string][]KnownFinding{}
	for _, kf := range kfs {
		if kf.Witness == "" {
			out[kf.ID] = "no witness recorded"
			continue
		}
		p := kf.Package
		if p == "" {
			p = "."
		}
		if kf.Race {
			p += "|race"
		}
		byPkg[p] = append(byPkg[p], kf)
	}
	var pkgs []string
	for p := range byPkg {
		pkgs = append(pkgs, p)
	}
	sort.Strings(pkgs)
	for _, pk := range pkgs {
		p := strings.TrimSuffix(pk, "|race")
		var extra []string
		if p != pk {
			extra = append(extra, "-race")
		}
		pkgName := goPackageName(filepath.Join(repoDir(), p))
		imports := map[string]bool{"testing": true}
		var body strings.Builder
		for _, kf := range byPkg[pk] {
			for _, im := range kf.Imports {
				imports[im] = true
			}
			fmt.Fprintf(&body, "func TestGvcWitness_%s(t *testing.T) {\n%s\n}\n\n", sanitize(kf.ID), kf.Witness)
		}
		var src strings.Builder
		fmt.Fprintf(&src, "package %s\n\nimport (\n", pkgName)
		for _, im := range sortedKeys(imports) {
			fmt.Fprintf(&src, "\t%q\n", im)
		}
		src.WriteString(")\n\n")
		src.WriteString(body.String())
		res, human, err := runOverlayTest(p, src.String(), "^TestGvcWitness_", wd, extra...)
		for _, kf := range byPkg[pk] {
			name := "TestGvcWitness_" + sanitize(kf.ID)
			switch {
			case err != nil:
				out[kf.ID] = err.Error()
			case res[name] == "fail":
				out[kf.ID] = "fails"
			case res[name] == "pass":
				out[kf.ID] = "passes"
			default:
				out[kf.ID] = "did not run: " + firstLines(human, 6)
			}
		}
	}
	return out
}

func goPackageName(dir string) string {
	ents, _ := os.ReadDir(dir)
	for _, e := range ents {
		if strings.HasSuffix(e.Name(), ".go") && !strings.HasSuffix(e.Name(), "_test.go") {
			b, _ := os.ReadFile(filepath.Join(dir, e.Name()))
			for _, l := range strings.Split(string(b), "\n") {
				if strings.HasPrefix(l, "package ") {
					return strings.Fields(l)[1]
				}
			}
		}
	}
	return "main"
}

// writeReplay records a failed obligation. For refuted obligations the solver's model is attached and,
// where the generator can turn it into inputs (see model2go.go), replayed against the real code.
func writeReplay(w *World, dir, prop string, r OblResult, wd string) string {
	os.MkdirAll(dir, 0o755)
	rf := ReplayFile{Property: prop, Obligation: r.Name, Function: r.Func, At: r.Pos, What: r.Info, Status: r.Status, Solver: r.Solver,
		SolverOut: r.Output, Verdict: "no-failing-input-found"}
	rf.Note = "obligation generated from the current source of " + r.Func + " was not discharged; it is discharged on the reference tree"
	if r.Status == "refuted" {
		model := getModel(r, wd)
		rf.Model = model
		if ok := tryModelReplay(w, &rf, r, model, wd); ok {
			rf.Verdict = "confirmed"
		}
	}
	path := filepath.Join(dir, sanitize(r.Name)+".json")
	b, _ := json.MarshalIndent(rf, "", " ")
	os.WriteFile(path, append(b, '\n'), 0o644)
	return path
}

func replayConfirmed(path string) bool {
	b, err := os.ReadFile(path)
	if err != nil {
		return false
	}
	var rf ReplayFile
	if json.Unmarshal(b, &rf) != nil {
		return false
	}
	return rf.Verdict == "confirmed"
}

func getModel(r OblResult, wd string) string {
	script := strings.Replace(r.Script, "(check-sat)\n", "(check-sat)\n(get-model)\n", 1)
	file := filepath.Join(wd, fmt.Sprintf("model%d_%s.smt2", os.Getpid(), sanitize(r.Name)))
	defer os.Remove(file)
	for _, sd := range solvers[:2] {
		if !strings.HasPrefix(r.Solver, strings.SplitN(sd.name, "-", 2)[0]) && r.Solver != sd.name {
			continue
		}
		st, out, _ := runSolver(sd, "(set-option :model.compact true)\n"+script, file, 20*time.Second, 1)
		if st == "sat" {
			if len(out) > 200000 {
				out = out[:200000]
			}
			return out
		}
	}
	st, out, _ := runSolver(solvers[0], script, file, 20*time.Second, 1)
	if st == "sat" {
		if len(out) > 200000 {
			out = out[:200000]
		}
		return out
	}
	return ""
}

func cmdReplay(args []string) int {
	if len(args) < 1 {
		fmt.Fprintln(os.Stderr, "usage: gvc replay <file>")
		return 2
	}
	b, err := os.ReadFile(args[0])
	if err != nil {
		fmt.Fprintln(os.Stderr, err)
		return 2
	}
	var rf ReplayFile
	if err := json.Unmarshal(b, &rf); err != nil {
		fmt.Fprintln(os.Stderr, err)
		return 2
	}
	fmt.Printf("property %s\nobligation %s\nat %s\n%s\nstatus %s (%s)\n", rf.Property, rf.Obligation, rf.At, rf.What, rf.Status, rf.Solver)
	if rf.GoTest == "" {
		fmt.Println("no concrete input recorded (verdict: " + rf.Verdict + ")")
		fmt.Println(rf.SolverOut)
		return 1
	}
	wd := workDir()
	defer os.RemoveAll(wd)
	res, human, err := runOverlayTest(rf.Package, rf.GoTest, "^TestGvcReplay$", wd)
	fmt.Println(human)
	if err != nil || res["TestGvcReplay"] != "fail" {
		fmt.Println("replay did not fail on the current tree")
		return 0
	}
	fmt.Println("replay FAILS on the current tree (violation reproduced)")
	return 1
}

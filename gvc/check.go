package main

import (
	"encoding/json"
	"flag"
	"fmt"
	"os"
	"path/filepath"
	"sort"
	"strconv"
	"strings"
	"sync"
	"time"
)

// propertyOf: which listed properties an obligation counts for.
//
//	explicit [Cxx] tag on the clause          -> that property
//	frame obligations                         -> C16 when the function lists it
//	lock / permission / @conc obligations     -> C01 (and C02 for lp obligations) when listed
//	everything else                           -> the function's other properties
func propertiesOf(spec *FuncSpec, f Fact) []string {
	if strings.HasPrefix(f.Tag, "C") && f.Tag != "conc" {
		return strings.Split(f.Tag, ",")
	}
	has := func(p string) bool {
		for _, x := range spec.Properties {
			if x == p {
				return true
			}
		}
		return false
	}
	switch f.Tag {
	case "frame":
		if has("C16") {
			return []string{"C16"}
		}
	case "lock", "perm":
		// lock protocol and permissions are C01's obligations; the linearizability argument of C02 (atomic
		// specification per critical section) stands on the same discipline, so they count there too
		var out []string
		for _, p := range []string{"C01", "C02"} {
			if has(p) {
				out = append(out, p)
			}
		}
		if len(out) > 0 {
			return out
		}
	case "lp":
		if has("C02") {
			return []string{"C02"}
		}
	}
	var out []string
	for _, p := range spec.Properties {
		if p == "C16" || p == "C01" || p == "C02" {
			continue
		}
		out = append(out, p)
	}
	if len(out) == 0 {
		out = spec.Properties
	}
	// Supporting obligations -- loop invariants, callee preconditions, hints, lemmas, panic freedom -- are what
	// the frame / lock proofs of the same function stand on, so they also count for those properties; so do
	// postconditions about freshness and aliasing of results (C16: results are fresh or declared views).
	support := strings.Contains(f.Kind, ".inv[") || strings.HasPrefix(f.Kind, "call.") || strings.HasPrefix(f.Kind, "assert") ||
		strings.Contains(f.Kind, "lemma") || strings.HasPrefix(f.Kind, "nopanic") || strings.HasPrefix(f.Kind, "panic.")
	alias := strings.HasPrefix(f.Kind, "ensures") && (strings.Contains(f.Info, "fresh(") || strings.Contains(f.Info, "sarr(") || strings.Contains(f.Info, "unchanged("))
	if spec.Opts["functional-hints"] != "" && strings.HasPrefix(f.Kind, "assert") {
		// exit hints that only serve the functional postconditions (already counted above) of a helper that takes no
		// lock itself: in concurrent mode they would be proved a second time, identically
		support = false
	}
	for _, p := range []string{"C16", "C01", "C02"} {
		if has(p) && (support || (p == "C16" && alias)) {
			out = append(out, p)
		}
	}
	return out
}

type Evidence struct {
	PropertyID  string         `json:"property_id"`
	Tier        string         `json:"tier"`
	Seed        int            `json:"seed"`
	Level       string         `json:"level"`
	Coverage    map[string]any `json:"coverage"`
	Assumptions []string       `json:"assumptions"`
	WallS       float64        `json:"wall_s"`
	Violations  int            `json:"violations"`
}

type KnownFinding struct {
	ID         string   `json:"id"`
	Property   string   `json:"property"`
	Function   string   `json:"function"`
	What       string   `json:"what"`
	CarveOut   string   `json:"carve_out,omitempty"`
	Package    string   `json:"package,omitempty"`     // Go package dir relative to the repo ("." for root)
	Witness    string   `json:"witness,omitempty"`     // body of a Go test function (in-package) that FAILS while the defect is present
	Imports    []string `json:"imports,omitempty"`
	Race       bool     `json:"race,omitempty"`        // run the witness under the race detector
	Advisory   bool     `json:"advisory_witness,omitempty"` // the witness depends on scheduling: a quiet run proves nothing
	Fixed      string   `json:"fixed,omitempty"`       // "fixed: property=<id> <commit> <what failed>"
	Obligations []string `json:"obligations,omitempty"`
}

type findingsFile struct {
	Findings []KnownFinding `json:"findings"`
}

func loadFindings() map[string]KnownFinding {
	out := map[string]KnownFinding{}
	b, err := os.ReadFile(filepath.Join(verifDir(), "known_findings.json"))
	if err != nil {
		return out
	}
	var ff findingsFile
	if err := json.Unmarshal(b, &ff); err != nil {
		fmt.Fprintln(os.Stderr, "gvc: known_findings.json:", err)
		os.Exit(3)
	}
	for _, f := range ff.Findings {
		out[f.ID] = f
	}
	return out
}

func cmdCheck(args []string) int {
	fs := flag.NewFlagSet("check", flag.ExitOnError)
	prop := fs.String("property", "", "property id")
	tier := fs.String("tier", "", "quick|thorough")
	fs.Parse(args)
	if *tier == "" {
		*tier = os.Getenv("VERIF_TIER")
	}
	if *tier == "" {
		*tier = "quick"
	}
	seed := 1
	if s := os.Getenv("VERIF_SEED"); s != "" {
		if n, err := strconv.Atoi(s); err == nil {
			seed = n
		}
	}
	if *prop == "" {
		fmt.Fprintln(os.Stderr, "gvc check: --property required")
		return 2
	}
	t0 := time.Now()
	w := load()
	findings := loadFindings()
	wd := workDir()
	defer os.RemoveAll(wd)

	opts := SolveOpts{Timeout: 40 * time.Second, Seed: seed, WorkDir: wd}
	if *tier == "thorough" {
		opts.Timeout = 90 * time.Second
		opts.AllSolvers = true
	}

	// functions serving this property
	var keys []string
	for _, k := range w.Contracts.Order {
		sp := w.Contracts.Funcs[k]
		if sp.Extern || sp.Trusted {
			continue
		}
		for _, p := range sp.Properties {
			if p == *prop {
				keys = append(keys, k)
				break
			}
		}
	}
	type job struct {
		fr  *FuncResult
		idx int
	}
	var jobs []job
	var frs []*FuncResult
	var machinery []string
	var genViol []OblResult
	assumptions := map[string]bool{}
	externs := map[string]bool{}
	usedSpecs := map[string]bool{}
	inlined := map[string]bool{}
	var findingIDs []string
	findingFunc := map[string]string{}
	for _, k := range keys {
		modes := []bool{false}
		if *prop == "C01" || *prop == "C02" || w.Contracts.Funcs[k].Opts["conc-only"] != "" {
			modes = []bool{true}
		}
		for _, conc := range modes {
			fr, err := w.genFunction(k, conc)
			if err != nil {
				machinery = append(machinery, fmt.Sprintf("%s: %v", k, err))
				genViol = append(genViol, OblResult{Func: k, Name: k + "#translation", Kind: "translation", Status: "undecided", Info: "the function under contract could not be translated", Output: err.Error()})
				continue
			}
			for _, e := range fr.Errs {
				machinery = append(machinery, fmt.Sprintf("%s: %s", k, e))
			}
			if len(fr.Errs) > 0 {
				// the code of a function under contract left the translatable subset (a loop without invariant block, a
				// call without contract, an unmodelled instruction): its obligations are not all generated, so the
				// property is not decided for it on this tree - reported like an undischarged obligation
				genViol = append(genViol, OblResult{Func: k, Name: k + "#translation", Kind: "translation", Status: "undecided", Info: "the function under contract could not be translated completely: " + strings.Join(fr.Errs, "; "), Output: strings.Join(fr.Errs, "\n")})
			}
			frs = append(frs, fr)
			for _, a := range fr.Assumes {
				assumptions[a] = true
			}
			for _, a := range fr.Externs {
				externs[a] = true
			}
			for _, a := range fr.Used {
				usedSpecs[a] = true
			}
			for _, a := range fr.Inlined {
				inlined[a] = true
			}
			for _, f := range fr.Spec.Findings {
				findingIDs = append(findingIDs, f.Label)
				findingFunc[f.Label] = k
			}
			if fr.Spec.Arith == "" || fr.Spec.Arith == "ring" {
				assumptions["machine integer arithmetic treated as mathematical (no overflow obligations) in "+k] = true
			}
			for i, f := range fr.Facts {
				if !f.Oblig {
					continue
				}
				for _, p := range propertiesOf(fr.Spec, f) {
					if p == *prop {
						jobs = append(jobs, job{fr, i})
						break
					}
				}
			}
		}
	}
	// solve
	results := make([]OblResult, len(jobs))
	var wg sync.WaitGroup
	sem := make(chan struct{}, 16)
	for j := range jobs {
		wg.Add(1)
		go func(j int) {
			defer wg.Done()
			sem <- struct{}{}
			defer func() { <-sem }()
			results[j] = solveObligation(jobs[j].fr, jobs[j].idx, opts, j)
			results[j].Pos = w.pos(jobs[j].fr.Facts[jobs[j].idx].Pos)
		}(j)
	}
	// vacuity covers in parallel
	covers := make([]string, len(frs))
	for i := range frs {
		wg.Add(1)
		go func(i int) {
			defer wg.Done()
			sem <- struct{}{}
			defer func() { <-sem }()
			covers[i], _ = coverCheck(frs[i], opts, i)
		}(i)
	}
	wg.Wait()
	// second chance: an obligation no solver decided within the limit (and that no listed finding names) is tried
	// once more, two at a time, with three times the limit -- a slow proof on a busy machine must not look like a violation
	listed := map[string]bool{}
	for _, kf := range findings {
		if kf.Fixed == "" {
			for _, o := range kf.Obligations {
				listed[o] = true
			}
		}
	}
	retried := 0
	{
		ropts := opts
		ropts.Timeout = 3 * opts.Timeout
		ropts.Seed = opts.Seed + 101
		rsem := make(chan struct{}, 2)
		var rwg sync.WaitGroup
		for j := range results {
			if results[j].Status != "undecided" || listed[strings.TrimSuffix(results[j].Name, "@conc")] || listed[results[j].Name] {
				continue
			}
			retried++
			rwg.Add(1)
			go func(j int) {
				defer rwg.Done()
				rsem <- struct{}{}
				defer func() { <-rsem }()
				pos := results[j].Pos
				first := results[j].Secs
				results[j] = solveObligation(jobs[j].fr, jobs[j].idx, ropts, 100000+j)
				results[j].Pos = pos
				results[j].Secs += first
			}(j)
		}
		rwg.Wait()
	}
	results = append(results, genViol...)
	vacuityRun, vacuityOK := 0, 0
	for i, c := range covers {
		if c == "none" {
			continue
		}
		vacuityRun++
		if c == "unsat" {
			machinery = append(machinery, fmt.Sprintf("%s: vacuity: assumptions (requires/invariants/extern contracts) make every return unreachable", frs[i].Key))
		} else {
			vacuityOK++
		}
	}

	// known findings: each carve-out used must be listed; listed witnesses must still fail on the real code
	exit := 0
	var knownLines []string
	sort.Strings(findingIDs)
	seenF := map[string]bool{}
	var witnessToRun []KnownFinding
	for _, id := range findingIDs {
		if seenF[id] {
			continue
		}
		seenF[id] = true
		kf, ok := findings[id]
		if !ok {
			machinery = append(machinery, fmt.Sprintf("contract of %s carves out finding %s which is not listed in known_findings.json", findingFunc[id], id))
			continue
		}
		if kf.Fixed != "" {
			machinery = append(machinery, fmt.Sprintf("finding %s is recorded as fixed but the contract of %s still carves it out", id, findingFunc[id]))
			continue
		}
		if kf.Property != *prop {
			// the finding belongs to another property (and is reported by that property's check); here the
			// carve-out is just an assumption under which the obligations of this property were proved
			assumptions[fmt.Sprintf("obligations of %s proved outside known finding %s (reported under %s): %s", findingFunc[id], id, kf.Property, kf.CarveOut)] = true
			continue
		}
		witnessToRun = append(witnessToRun, kf)
	}
	// findings recorded directly against this property without a carve-out clause (e.g. call-site findings)
	for id, kf := range findings {
		if kf.Property == *prop && kf.Fixed == "" && !seenF[id] && kf.CarveOut == "" && kf.Witness != "" {
			seenF[id] = true
			witnessToRun = append(witnessToRun, kf)
		}
	}
	sort.Slice(witnessToRun, func(i, j int) bool { return witnessToRun[i].ID < witnessToRun[j].ID })
	wres := runWitnesses(witnessToRun, wd)
	var raceQuiet []KnownFinding
	for _, kf := range witnessToRun {
		switch wres[kf.ID] {
		case "fails":
			knownLines = append(knownLines, fmt.Sprintf("KNOWN-FINDING: property=%s %s [%s]", *prop, kf.What, kf.ID))
		case "passes":
			if kf.Race || kf.Advisory {
				raceQuiet = append(raceQuiet, kf)
				break
			}
			// the defect is gone: nothing to report; the carve-out only makes the proof weaker than it could be
			assumptions["finding "+kf.ID+" no longer reproduces; its carve-out is still assumed in the contract of "+kf.Function] = true
		default:
			machinery = append(machinery, fmt.Sprintf("witness of finding %s could not be run: %s", kf.ID, wres[kf.ID]))
		}
	}

	// violations
	discharged := 0
	bySolver := map[string]map[string]any{}
	var viol []OblResult
	var coveredByFinding []string
	for _, r := range results {
		if r.Status == "discharged" {
			discharged++
			m := bySolver[r.Solver]
			if m == nil {
				m = map[string]any{"count": 0, "secs": 0.0}
				bySolver[r.Solver] = m
			}
			m["count"] = m["count"].(int) + 1
			m["secs"] = m["secs"].(float64) + r.Secs
		} else if r.Status == "error" {
			// the generator produced a query the solvers reject (code outside the modelled subset): the obligation is
			// not discharged on this tree, which is reported like any other undecided obligation, plus a note
			machinery = append(machinery, fmt.Sprintf("solver rejected the query for %s: %s", r.Name, firstLines(r.Output, 2)))
			viol = append(viol, r)
		} else {
			// a failing obligation that a listed (unfixed) finding of this property names, and whose witness
			// still fails on the real code, is that finding - not a new violation
			covered := false
			for _, kf := range witnessToRun {
				// a race witness that happens not to trip the detector in this run proves nothing: for those the
				// listed obligation name alone identifies the finding
				if kf.Property != *prop || (wres[kf.ID] != "fails" && !((kf.Race || kf.Advisory) && wres[kf.ID] == "passes")) {
					continue
				}
				for _, o := range kf.Obligations {
					if o == strings.TrimSuffix(r.Name, "@conc") || o == r.Name {
						covered = true
					}
				}
			}
			if covered {
				coveredByFinding = append(coveredByFinding, r.Name)
			} else {
				viol = append(viol, r)
			}
		}
		if r.Agree != nil {
			sat, unsat := false, false
			for _, v := range r.Agree {
				if v == "sat" {
					sat = true
				}
				if v == "unsat" {
					unsat = true
				}
			}
			if sat && unsat {
				machinery = append(machinery, fmt.Sprintf("solvers disagree (sat vs unsat) on %s", r.Name))
			}
		}
	}
	for _, kf := range raceQuiet {
		hit := false
		for _, n := range coveredByFinding {
			for _, o := range kf.Obligations {
				if o == n {
					hit = true
				}
			}
		}
		if hit {
			knownLines = append(knownLines, fmt.Sprintf("KNOWN-FINDING: property=%s %s [%s] (its scheduling-dependent witness stayed quiet in this run; the listed obligation still fails)", *prop, kf.What, kf.ID))
		}
	}
	for _, l := range knownLines {
		fmt.Println(l)
	}
	replayDir := filepath.Join(verifDir(), "replays", *prop)
	for _, r := range viol {
		path := writeReplay(w, replayDir, *prop, r, wd)
		suffix := ""
		if !replayConfirmed(path) {
			suffix = " no-failing-input-found"
		}
		fmt.Printf("VIOLATION property=%s replay=%s obligation=%s%s\n", *prop, path, r.Name, suffix)
		exit = 1
	}
	// bounded stand-ins: functions or paths the deductive check leaves assumed are exercised on the real code
	// within stated bounds (labelled bounded; never counted as proved)
	var boundedCov []map[string]any
	boundedFails := 0
	if files, _ := filepath.Glob(filepath.Join(verifDir(), "bounded", *prop, "*.go")); len(files) > 0 {
		os.Setenv("GVC_TIER", *tier)
		os.Setenv("GVC_SEED", fmt.Sprint(seed))
		sort.Strings(files)
		for _, f := range files {
			b, err := os.ReadFile(f)
			if err != nil {
				machinery = append(machinery, fmt.Sprintf("bounded stand-in %s: %v", f, err))
				continue
			}
			src := string(b)
			dir := "."
			if strings.HasPrefix(src, "// dir:") {
				nl := strings.Index(src, "\n")
				dir = strings.TrimSpace(strings.TrimPrefix(src[:nl], "// dir:"))
				src = "//" + src[nl:]
			}
			overlayTimeout = 1500 * time.Second
			tb := time.Now()
			res, human, err := runOverlayTest(dir, src, "^TestBounded", wd, "-timeout", "1400s")
			overlayTimeout = 180 * time.Second
			entry := map[string]any{"file": filepath.Base(f), "package": dir, "label": "bounded stand-in: covers what the assumptions above leave unverified, within the bounds stated in the file; not counted as proved", "secs": round3(time.Since(tb).Seconds())}
			failed, ran := false, false
			for name, verdict := range res {
				if strings.HasPrefix(name, "TestBounded") {
					ran = true
					if verdict == "fail" {
						failed = true
					}
				}
			}
			for _, line := range strings.Split(human, "\n") {
				if strings.HasPrefix(strings.TrimSpace(line), "BOUNDED ") {
					entry["measured"] = strings.TrimSpace(line)
				}
			}
			switch {
			case err != nil || !ran:
				machinery = append(machinery, fmt.Sprintf("bounded stand-in %s did not run: %v %s", filepath.Base(f), err, firstLines(human, 8)))
			case failed:
				os.MkdirAll(replayDir, 0o755)
				path := filepath.Join(replayDir, "bounded_"+sanitize(filepath.Base(f))+".json")
				var fl []string
				for _, line := range strings.Split(human, "\n") {
					if strings.Contains(line, "FAILING-SEQUENCE") {
						fl = append(fl, strings.TrimSpace(line))
					}
				}
				rb, _ := json.MarshalIndent(map[string]any{"property": *prop, "kind": "bounded stand-in failed on the real code", "test_file": f, "package": dir,
					"rerun": "cd /verif && tools/ovtest.sh " + dir + " <(tail -n +2 " + f + ") TestBounded", "failing": fl, "output": firstLines(human, 60)}, "", " ")
				os.WriteFile(path, rb, 0o644)
				fmt.Printf("VIOLATION property=%s replay=%s obligation=bounded:%s\n", *prop, path, filepath.Base(f))
				entry["failed"] = true
				boundedFails++
				exit = 1
			}
			boundedCov = append(boundedCov, entry)
		}
	}
	if len(jobs) == 0 {
		machinery = append(machinery, "no obligations were generated for "+*prop)
	}
	for _, m := range machinery {
		fmt.Println("MACHINERY-ERROR:", m)
	}
	if len(machinery) > 0 && exit == 0 {
		exit = 2
	}

	// evidence
	sort.Slice(results, func(i, j int) bool { return results[i].Secs > results[j].Secs })
	var slowest []map[string]any
	for i := 0; i < len(results) && i < 5; i++ {
		slowest = append(slowest, map[string]any{"obligation": results[i].Name, "secs": round3(results[i].Secs), "solver": results[i].Solver, "smt_bytes": results[i].Bytes})
	}
	var samples []map[string]any
	step := 1
	if len(results) > 12 {
		step = len(results) / 12
	}
	for i := 0; i < len(results); i += step {
		r := results[i]
		samples = append(samples, map[string]any{"obligation": r.Name, "what": r.Info, "at": r.Pos, "status": r.Status, "solver": r.Solver, "secs": round3(r.Secs), "smt_bytes": r.Bytes})
	}
	var undis []map[string]any
	for _, r := range viol {
		undis = append(undis, map[string]any{"obligation": r.Name, "status": r.Status, "what": r.Info, "at": r.Pos})
	}
	var funcs []string
	for _, fr := range frs {
		funcs = append(funcs, fr.Key)
	}
	var assum []string
	for a := range assumptions {
		assum = append(assum, a)
	}
	for a := range externs {
		assum = append(assum, "assumed contract / built-in model of external function: "+a)
	}
	assum = append(assum,
		"x/tools go/ssa builder is faithful to the Go spec; gvc's VC generator is correct (exercised by the must-fail corpus /verif/seeded (tools/seed_detect.sh) and ad-hoc mutations (tools/mut.sh))",
		"termination is not proved (partial correctness)",
		"no Go object has more than 2^56 elements",
		"clients reach a container's representation only through its exported API (encapsulation)")
	sort.Strings(assum)
	cov := map[string]any{
		"obligations":              len(results) - len(coveredByFinding),
		"obligations_generated":    len(results),
		"discharged":               discharged,
		"checker_cmd":              fmt.Sprintf("./bin/gvc check --property %s --tier %s", *prop, *tier),
		"trusted_base":             []string{"go/ssa (x/tools v0.29.0)", "gvc VC generator", "z3 5.1.0 / z3 4.8.12 / cvc5 1.0.3 (unsat answers)", "Go memory model and sync package for lock-based arguments"},
		"functions_under_contract": funcs,
		"contracts_used_at_call_sites": keysOf(usedSpecs),
		"inlined_helpers":          keysOf(inlined),
		"by_solver":                bySolver,
		"slowest":                  slowest,
		"samples":                  samples,
		"undischarged":             undis,
		"known_findings_reported":  knownLines,
		"obligations_failing_as_known_findings": coveredByFinding,
		"vacuity":                  map[string]int{"cover_checks_run": vacuityRun, "not_vacuous": vacuityOK},
		"bounded_standins":         boundedCov,
		"retried_with_longer_limit": retried,
		"machinery_errors":         machinery,
		"explanation":              "one SMT query per named obligation generated from the SSA of the real functions in /repo under their //@ contracts; unsat = discharged",
	}
	ev := Evidence{PropertyID: *prop, Tier: *tier, Seed: seed, Level: "proof", Coverage: cov, Assumptions: assum, WallS: round3(time.Since(t0).Seconds()), Violations: len(viol) + boundedFails}
	os.MkdirAll(filepath.Join(verifDir(), "evidence"), 0o755)
	b, _ := json.MarshalIndent(ev, "", " ")
	os.WriteFile(filepath.Join(verifDir(), "evidence", *prop+".json"), append(b, '\n'), 0o644)
	fmt.Printf("%s: %d functions, %d obligations, %d discharged, %d violations, %d known findings, %.1fs\n", *prop, len(frs), len(results), discharged, len(viol)+boundedFails, len(knownLines), time.Since(t0).Seconds())
	return exit
}

func keysOf(m map[string]bool) []string {
	var ks []string
	for k := range m {
		ks = append(ks, k)
	}
	sort.Strings(ks)
	return ks
}

func round3(x float64) float64 { return float64(int(x*1000+0.5)) / 1000 }

func cmdSelftest(args []string) int { return 2 }

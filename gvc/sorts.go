package main

import (
	"fmt"
	"go/types"
	"strings"
)

// ---------------------------------------------------------------- SMT helpers

func sAnd(xs ...string) string {
	var ys []string
	for _, x := range xs {
		if x == "true" || x == "" {
			continue
		}
		if x == "false" {
			return "false"
		}
		ys = append(ys, x)
	}
	switch len(ys) {
	case 0:
		return "true"
	case 1:
		return ys[0]
	}
	return "(and " + strings.Join(ys, " ") + ")"
}

func sOr(xs ...string) string {
	var ys []string
	for _, x := range xs {
		if x == "false" || x == "" {
			continue
		}
		if x == "true" {
			return "true"
		}
		ys = append(ys, x)
	}
	switch len(ys) {
	case 0:
		return "false"
	case 1:
		return ys[0]
	}
	return "(or " + strings.Join(ys, " ") + ")"
}

func sNot(x string) string {
	if x == "true" {
		return "false"
	}
	if x == "false" {
		return "true"
	}
	return "(not " + x + ")"
}

func sImp(a, b string) string {
	if a == "true" {
		return b
	}
	if a == "false" || b == "true" {
		return "true"
	}
	return "(=> " + a + " " + b + ")"
}

func sIte(c, a, b string) string {
	if c == "true" {
		return a
	}
	if c == "false" {
		return b
	}
	if a == b {
		return a
	}
	return "(ite " + c + " " + a + " " + b + ")"
}

func sEq(a, b string) string { return "(= " + a + " " + b + ")" }

func sApp(f string, args ...string) string {
	if len(args) == 0 {
		return f
	}
	return "(" + f + " " + strings.Join(args, " ") + ")"
}

func sSel(a, i string) string      { return "(select " + a + " " + i + ")" }
func sSto(a, i, v string) string   { return "(store " + a + " " + i + " " + v + ")" }
func sInt(n int64) string {
	if n < 0 {
		return fmt.Sprintf("(- %d)", -n)
	}
	return fmt.Sprintf("%d", n)
}

var smtReserved = map[string]bool{
	"par": true, "let": true, "forall": true, "exists": true, "match": true, "as": true, "assert": true,
	"true": true, "false": true, "not": true, "and": true, "or": true, "ite": true, "select": true, "store": true,
	"Int": true, "Bool": true, "Real": true, "Array": true, "div": true, "mod": true, "abs": true, "distinct": true,
	"xor": true, "define": true, "declare": true, "set": true, "get": true, "push": true, "pop": true, "exit": true,
	"check": true, "is": true, "const": true, "lambda": true, "String": true, "Set": true, "Seq": true, "Bag": true,
	"Tuple": true, "member": true, "subset": true, "union": true, "insert": true, "card": true, "len": true, "nil": true,
}

func sanitize(s string) string {
	var b strings.Builder
	for _, r := range s {
		switch {
		case r >= 'a' && r <= 'z', r >= 'A' && r <= 'Z', r >= '0' && r <= '9', r == '_':
			b.WriteRune(r)
		case r == '*':
			b.WriteString("p_")
		case r == '[':
			b.WriteString("_L")
		case r == ']':
			b.WriteString("R_")
		case r == '.', r == '/':
			b.WriteRune('_')
		case r == ' ', r == ',':
		default:
			b.WriteRune('_')
		}
	}
	out := b.String()
	if out == "" || smtReserved[out] || (out[0] >= '0' && out[0] <= '9') {
		out = "x_" + out
	}
	return out
}

// ---------------------------------------------------------------- type substitution

type TSubst map[*types.TypeParam]types.Type

func (s TSubst) apply(t types.Type) types.Type {
	if len(s) == 0 || t == nil {
		return t
	}
	switch t := t.(type) {
	case *types.TypeParam:
		if r, ok := s[t]; ok {
			return r
		}
		return t
	case *types.Pointer:
		e := s.apply(t.Elem())
		if e == t.Elem() {
			return t
		}
		return types.NewPointer(e)
	case *types.Slice:
		e := s.apply(t.Elem())
		if e == t.Elem() {
			return t
		}
		return types.NewSlice(e)
	case *types.Array:
		e := s.apply(t.Elem())
		if e == t.Elem() {
			return t
		}
		return types.NewArray(e, t.Len())
	case *types.Map:
		k, v := s.apply(t.Key()), s.apply(t.Elem())
		if k == t.Key() && v == t.Elem() {
			return t
		}
		return types.NewMap(k, v)
	case *types.Chan:
		e := s.apply(t.Elem())
		if e == t.Elem() {
			return t
		}
		return types.NewChan(t.Dir(), e)
	case *types.Named:
		ta := t.TypeArgs()
		if ta == nil || ta.Len() == 0 {
			return t
		}
		changed := false
		var nargs []types.Type
		for i := 0; i < ta.Len(); i++ {
			a := s.apply(ta.At(i))
			if a != ta.At(i) {
				changed = true
			}
			nargs = append(nargs, a)
		}
		if !changed {
			return t
		}
		inst, err := types.Instantiate(nil, t.Origin(), nargs, false)
		if err != nil {
			return t
		}
		return inst
	case *types.Tuple:
		changed := false
		var vs []*types.Var
		for i := 0; i < t.Len(); i++ {
			v := t.At(i)
			nt := s.apply(v.Type())
			if nt != v.Type() {
				changed = true
			}
			vs = append(vs, types.NewVar(v.Pos(), v.Pkg(), v.Name(), nt))
		}
		if !changed {
			return t
		}
		return types.NewTuple(vs...)
	case *types.Signature:
		p := s.apply(t.Params()).(*types.Tuple)
		r := s.apply(t.Results()).(*types.Tuple)
		if p == t.Params() && r == t.Results() {
			return t
		}
		return types.NewSignatureType(nil, nil, nil, p, r, t.Variadic())
	case *types.Struct:
		changed := false
		var fs []*types.Var
		var tags []string
		for i := 0; i < t.NumFields(); i++ {
			f := t.Field(i)
			nt := s.apply(f.Type())
			if nt != f.Type() {
				changed = true
			}
			fs = append(fs, types.NewField(f.Pos(), f.Pkg(), f.Name(), nt, f.Embedded()))
			tags = append(tags, t.Tag(i))
		}
		if !changed {
			return t
		}
		return types.NewStruct(fs, tags)
	}
	return t
}

// ---------------------------------------------------------------- sorts

type tpClass int

const (
	tpOpaque tpClass = iota // comparable / any: uninterpreted sort
	tpNum                   // Number, Integer, Signed, Ordered ...: Int
	tpStr                   // ~string
)

func classifyTypeParam(tp *types.TypeParam) tpClass {
	iface, ok := tp.Constraint().Underlying().(*types.Interface)
	if !ok {
		return tpOpaque
	}
	hasNum, hasStr, hasOther := false, false, false
	var visit func(t types.Type)
	visit = func(t types.Type) {
		switch u := t.(type) {
		case *types.Union:
			for i := 0; i < u.Len(); i++ {
				visit(u.Term(i).Type())
			}
		case *types.Named:
			visit(u.Underlying())
		case *types.Interface:
			for i := 0; i < u.NumEmbeddeds(); i++ {
				visit(u.EmbeddedType(i))
			}
		case *types.Basic:
			switch {
			case u.Info()&types.IsNumeric != 0:
				hasNum = true
			case u.Info()&types.IsString != 0:
				hasStr = true
			default:
				hasOther = true
			}
		default:
			hasOther = true
		}
	}
	visit(iface)
	switch {
	case hasNum && !hasOther:
		return tpNum // Ordered (numeric|string) is abstracted as an ordered numeric domain
	case hasStr && !hasNum && !hasOther:
		return tpStr
	}
	return tpOpaque
}

const sliceSort = "Slice"
const strSort = "Str"

// sortOf maps a Go type (after substitution) to an SMT sort, declaring datatypes as needed.
func (vc *VC) sortOf(t types.Type) string {
	switch t := t.(type) {
	case *types.Basic:
		switch {
		case t.Info()&types.IsBoolean != 0:
			return "Bool"
		case t.Info()&types.IsInteger != 0:
			return "Int"
		case t.Info()&types.IsFloat != 0:
			return "Real"
		case t.Info()&types.IsString != 0:
			vc.needStr()
			return strSort
		case t.Kind() == types.UnsafePointer, t.Kind() == types.UntypedNil:
			return "Int"
		}
		return "Int"
	case *types.Pointer, *types.Map, *types.Chan, *types.Signature, *types.Interface:
		return "Int"
	case *types.Slice:
		vc.needSlice()
		return sliceSort
	case *types.Array:
		return "(Array Int " + vc.sortOf(t.Elem()) + ")"
	case *types.Struct:
		return vc.structSort(nil, t)
	case *types.Named:
		if st, ok := t.Underlying().(*types.Struct); ok {
			return vc.structSort(t, st)
		}
		return vc.sortOf(t.Underlying())
	case *types.Alias:
		return vc.sortOf(types.Unalias(t))
	case *types.TypeParam:
		switch classifyTypeParam(t) {
		case tpNum:
			return "Int"
		case tpStr:
			vc.needStr()
			return strSort
		}
		name := "TP_" + sanitize(t.Obj().Name())
		vc.declareOnce("sort:"+name, "(declare-sort "+name+" 0)")
		return name
	case *types.Tuple:
		return "Int"
	}
	return "Int"
}

func (vc *VC) needStr() {
	vc.declareOnce("sort:Str", "(declare-datatype Str ((mk_str (sbytes (Array Int Int)) (slen Int))))")
}

func sortIdent(s string) string {
	return sanitize(strings.NewReplacer("(", "_", ")", "_", " ", "_").Replace(s))
}

// qualified origin name of a named type: pkg.Name
func namedKey(n *types.Named) string {
	o := n.Origin().Obj()
	if o.Pkg() != nil {
		return o.Pkg().Name() + "." + o.Name()
	}
	return o.Name()
}

func (vc *VC) structSort(n *types.Named, st *types.Struct) string {
	var base string
	if n != nil {
		base = "S_" + sanitize(namedKey(n))
		if ta := n.TypeArgs(); ta != nil {
			for i := 0; i < ta.Len(); i++ {
				base += "__" + sortIdent(vc.sortOf(ta.At(i)))
			}
		}
	} else {
		base = "S_anon"
		for i := 0; i < st.NumFields(); i++ {
			base += "_" + sanitize(st.Field(i).Name()) + "_" + sortIdent(vc.sortOf(st.Field(i).Type()))
		}
	}
	if vc.declared["sort:"+base] {
		return base
	}
	vc.declared["sort:"+base] = true // mark first (recursive pointers are Int so no real recursion)
	var fs []string
	for i := 0; i < st.NumFields(); i++ {
		fs = append(fs, fmt.Sprintf("(%s_%s %s)", base, sanitize(fieldName(st, i)), vc.sortOf(st.Field(i).Type())))
	}
	if len(fs) == 0 {
		vc.sortDecls = append(vc.sortDecls, fmt.Sprintf("(declare-datatype %s ((mk_%s)))", base, base))
	} else {
		vc.sortDecls = append(vc.sortDecls, fmt.Sprintf("(declare-datatype %s ((mk_%s %s)))", base, base, strings.Join(fs, " ")))
	}
	return base
}

func fieldName(st *types.Struct, i int) string {
	n := st.Field(i).Name()
	if n == "_" || n == "" {
		return fmt.Sprintf("f%d", i)
	}
	return n
}

// structOf returns the struct type (and Named, if any) behind t.
func structOf(t types.Type) (*types.Named, *types.Struct) {
	t = types.Unalias(t)
	if n, ok := t.(*types.Named); ok {
		if st, ok := n.Underlying().(*types.Struct); ok {
			return n, st
		}
		return nil, nil
	}
	if st, ok := t.(*types.Struct); ok {
		return nil, st
	}
	return nil, nil
}

func isAggregate(t types.Type) bool {
	switch types.Unalias(t).Underlying().(type) {
	case *types.Struct, *types.Array:
		return true
	}
	return false
}

func isStructType(t types.Type) bool {
	_, ok := types.Unalias(t).Underlying().(*types.Struct)
	return ok
}

// zero value term of a type
func (vc *VC) zeroOf(t types.Type) string {
	switch u := types.Unalias(t).(type) {
	case *types.TypeParam:
		switch classifyTypeParam(u) {
		case tpNum:
			return "0"
		case tpStr:
			return vc.strEmpty()
		}
		s := vc.sortOf(u)
		z := "zero_" + s
		vc.declareOnce("zero:"+s, "(declare-const "+z+" "+s+")")
		return z
	}
	switch u := t.Underlying().(type) {
	case *types.Basic:
		switch {
		case u.Info()&types.IsBoolean != 0:
			return "false"
		case u.Info()&types.IsInteger != 0:
			return "0"
		case u.Info()&types.IsFloat != 0:
			return "0.0"
		case u.Info()&types.IsString != 0:
			return vc.strEmpty()
		}
		return "0"
	case *types.Slice:
		vc.needSlice()
		return "(mk_slice 0 0 0 0)"
	case *types.Struct:
		n, st := structOf(t)
		s := vc.structSort(n, st)
		if st.NumFields() == 0 {
			return "mk_" + s
		}
		var fs []string
		for i := 0; i < st.NumFields(); i++ {
			fs = append(fs, vc.zeroOf(st.Field(i).Type()))
		}
		return "(mk_" + s + " " + strings.Join(fs, " ") + ")"
	case *types.Array:
		return "((as const " + vc.sortOf(t) + ") " + vc.zeroOf(u.Elem()) + ")"
	}
	return "0"
}

func (vc *VC) strEmpty() string {
	vc.needStr()
	return "(mk_str ((as const (Array Int Int)) 0) 0)"
}

func (vc *VC) needSlice() {
	vc.declareOnce("sort:Slice", "(declare-datatype Slice ((mk_slice (sarr Int) (soff Int) (slen_ Int) (scap Int))))")
}

package main

import (
	"fmt"
	"go/constant"
	"go/types"

	"golang.org/x/tools/go/ssa"
)

// Strings are immutable values mk_str(bytes, len), kept canonical (bytes are 0 outside [0,len)) so that
// SMT equality is Go string equality.

func constantString(c *ssa.Const) string {
	if c.Value != nil && c.Value.Kind() == constant.String {
		return constant.StringVal(c.Value)
	}
	return ""
}

func (vc *VC) strLit(s string) string {
	vc.needStr()
	arr := "((as const (Array Int Int)) 0)"
	for i := 0; i < len(s); i++ {
		arr = fmt.Sprintf("(store %s %d %d)", arr, i, s[i])
	}
	return fmt.Sprintf("(mk_str %s %d)", arr, len(s))
}

func (vc *VC) strPrelude() {
	vc.needStr()
	vc.declareOnce("str:prelude", `(define-fun str_wf ((s Str)) Bool (and (<= 0 (slen s)) (forall ((i Int)) (! (=> (or (< i 0) (>= i (slen s))) (= (select (sbytes s) i) 0)) :pattern ((select (sbytes s) i))))))
(declare-fun str_cat (Str Str) Str)
(assert (forall ((a Str) (b Str)) (! (and (= (slen (str_cat a b)) (+ (slen a) (slen b)))
  (forall ((i Int)) (! (= (select (sbytes (str_cat a b)) i) (ite (< i (slen a)) (select (sbytes a) i) (ite (< i (+ (slen a) (slen b))) (select (sbytes b) (- i (slen a))) 0))) :pattern ((select (sbytes (str_cat a b)) i)))))
  :pattern ((str_cat a b)))))
(declare-fun str_sub (Str Int Int) Str)
(assert (forall ((a Str) (lo Int) (hi Int)) (! (and (= (slen (str_sub a lo hi)) (- hi lo))
  (forall ((i Int)) (! (= (select (sbytes (str_sub a lo hi)) i) (ite (and (<= 0 i) (< i (- hi lo))) (select (sbytes a) (+ lo i)) 0)) :pattern ((select (sbytes (str_sub a lo hi)) i)))))
  :pattern ((str_sub a lo hi)))))
(declare-fun str_lt (Str Str) Bool)
(declare-fun str_fd (Str Str) Int)
(assert (forall ((a Str)) (not (str_lt a a))))
(assert (forall ((a Str) (b Str) (c Str)) (! (=> (and (str_lt a b) (str_lt b c)) (str_lt a c)) :pattern ((str_lt a b) (str_lt b c)))))
(assert (forall ((a Str) (b Str)) (! (=> (and (str_wf a) (str_wf b)) (or (str_lt a b) (str_lt b a) (= a b))) :pattern ((str_lt a b)))))
(assert (forall ((a Str) (b Str)) (! (=> (and (>= (slen a) 0) (>= (slen b) 0))
  (and (<= 0 (str_fd a b)) (<= (str_fd a b) (slen a)) (<= (str_fd a b) (slen b))
       (forall ((j Int)) (! (=> (and (<= 0 j) (< j (str_fd a b))) (= (select (sbytes a) j) (select (sbytes b) j))) :pattern ((select (sbytes a) j)) :pattern ((select (sbytes b) j))))
       (=> (and (< (str_fd a b) (slen a)) (< (str_fd a b) (slen b))) (not (= (select (sbytes a) (str_fd a b)) (select (sbytes b) (str_fd a b)))))
       (= (str_lt a b) (or (and (= (str_fd a b) (slen a)) (< (str_fd a b) (slen b)))
                           (and (< (str_fd a b) (slen a)) (< (str_fd a b) (slen b)) (< (select (sbytes a) (str_fd a b)) (select (sbytes b) (str_fd a b))))))))
  :pattern ((str_lt a b)))))`)
}

func (vc *VC) strConcat(a, b string) string {
	vc.strPrelude()
	return "(str_cat " + a + " " + b + ")"
}

func (vc *VC) strSub(s, lo, hi string) string {
	vc.strPrelude()
	return "(str_sub " + s + " " + lo + " " + hi + ")"
}

func (vc *VC) strCmp(op, a, b string) string {
	vc.strPrelude()
	switch op {
	case "<":
		return "(str_lt " + a + " " + b + ")"
	case ">":
		return "(str_lt " + b + " " + a + ")"
	case "<=":
		return "(not (str_lt " + b + " " + a + "))"
	default:
		return "(not (str_lt " + a + " " + b + "))"
	}
}

// string(byte or rune): the UTF-8 encoding of the code point (uninterpreted encoder with the facts needed).
func (vc *VC) strFromRune(r string) string {
	vc.strPrelude()
	vc.declareOnce("str:enc", `(declare-fun utf8_enc (Int) Str)
(assert (forall ((r Int)) (! (and (str_wf (utf8_enc r)) (>= (slen (utf8_enc r)) 1) (<= (slen (utf8_enc r)) 4)
  (=> (and (<= 0 r) (< r 128)) (and (= (slen (utf8_enc r)) 1) (= (select (sbytes (utf8_enc r)) 0) r)))
  (=> (and (<= 128 r) (< r 2048)) (and (= (slen (utf8_enc r)) 2) (= (select (sbytes (utf8_enc r)) 0) (+ 192 (div r 64))) (= (select (sbytes (utf8_enc r)) 1) (+ 128 (mod r 64))))))
  :pattern ((utf8_enc r)))))`)
	return "(utf8_enc " + r + ")"
}

// runeConvFns: string([]rune) is the UTF-8 encoding runes_str(elements, offset, count) of the rune sequence;
// []rune(s) is the decoded sequence str_runes(s) of length str_nrunes(s). Both are uninterpreted; the only
// facts given are lengths in range and that encoding the decoding of a string gives the string back.
func (vc *VC) runeConvFns() {
	vc.strPrelude()
	vc.declareOnce("str:runeconv", `(declare-fun runes_str ((Array Int Int) Int Int) Str)
(declare-fun str_runes (Str) (Array Int Int))
(declare-fun str_nrunes (Str) Int)
(assert (forall ((s Str)) (! (=> (>= (slen s) 0) (and (<= 0 (str_nrunes s)) (<= (str_nrunes s) (slen s)))) :pattern ((str_nrunes s)))))
(assert (forall ((a (Array Int Int)) (o Int) (n Int)) (! (and (str_wf (runes_str a o n)) (<= (slen (runes_str a o n)) 288230376151711744) (=> (<= n 0) (= (slen (runes_str a o n)) 0))) :pattern ((runes_str a o n)))))`)
}

func (ex *Exec) strFromSlice(x string, sl *types.Slice) string {
	vc := ex.vc
	if b, ok := sl.Elem().Underlying().(*types.Basic); ok && b.Kind() == types.Int32 {
		vc.runeConvFns()
		k, srt := ex.elemKey(sl.Elem())
		E := ex.get(ex.curState, k, "(Array Int (Array Int "+srt+"))")
		vc.assumptions["string([]rune) / []rune(string) are the UTF-8 encoder / decoder (uninterpreted runes_str / str_runes)"] = true
		return "(runes_str (select " + E + " (sarr " + x + ")) (soff " + x + ") (slen_ " + x + "))"
	}
	vc.strPrelude()
	if b, ok := sl.Elem().Underlying().(*types.Basic); ok && b.Kind() == types.Uint8 {
		// string([]byte): the same bytes, exactly (a fresh well-formed string value)
		k, srt := ex.elemKey(sl.Elem())
		E := ex.get(ex.curState, k, "(Array Int (Array Int "+srt+"))")
		n := vc.fresh("bytestr", strSort)
		vc.assume("(and (str_wf " + n + ") (= (slen " + n + ") (slen_ " + x + ")) (forall ((i Int)) (! (=> (and (<= 0 i) (< i (slen_ " + x + "))) (= (select (sbytes " + n + ") i) (select (select " + E + " (sarr " + x + ")) (ix (soff " + x + ") i)))) :pattern ((select (sbytes " + n + ") i)))))")
		return n
	}
	vc.errorf("conversion from %s to string is not modelled", sl)
	return vc.fresh("strconv", strSort)
}

func (ex *Exec) sliceFromStr(x string, sl *types.Slice) string {
	vc := ex.vc
	if b, ok := sl.Elem().Underlying().(*types.Basic); ok && b.Kind() == types.Int32 {
		vc.runeConvFns()
		r := ex.newRef("runes")
		k, srt := ex.elemKey(sl.Elem())
		as := "(Array Int (Array Int " + srt + "))"
		ex.set(ex.curState, k, as, sSto(ex.get(ex.curState, k, as), r, "(str_runes "+x+")"))
		vc.assumptions["string([]rune) / []rune(string) are the UTF-8 encoder / decoder (uninterpreted runes_str / str_runes)"] = true
		return "(mk_slice " + r + " 0 (str_nrunes " + x + ") (str_nrunes " + x + "))"
	}
	vc.errorf("conversion from string to %s is not modelled", sl)
	return vc.fresh("strconv", sliceSort)
}

// runeFns: rune_at(s,p) is the rune decoded at byte position p of s, rune_w(s,p) its width in bytes (1..4, never
// past the end; an ASCII byte decodes to itself with width 1; invalid UTF-8 decodes with width 1 like Go does).
func (vc *VC) runeFns() {
	vc.strPrelude()
	vc.declareOnce("str:rune", `(declare-fun rune_at (Str Int) Int)
(declare-fun rune_w (Str Int) Int)
(assert (forall ((s Str) (p Int)) (! (and (<= 1 (rune_w s p)) (<= (rune_w s p) 4)
  (=> (and (<= 0 p) (< p (slen s))) (<= (+ p (rune_w s p)) (slen s)))
  (=> (and (<= 0 p) (< p (slen s)) (< (select (sbytes s) p) 128)) (and (= (rune_w s p) 1) (= (rune_at s p) (select (sbytes s) p))))
  (<= 0 (rune_at s p)) (<= (rune_at s p) 1114111))
  :pattern ((rune_w s p)) :pattern ((rune_at s p)))))`)
}

// strNext: range over a string yields (byte position, rune) pairs, advancing by the width of each rune.
func (ex *Exec) strNext(i *ssa.Next, it *rangeIter) {
	vc := ex.vc
	vc.runeFns()
	st := ex.curState
	pos := ex.get(st, it.posKey, "Int")
	ok := vc.define(ex.pfx+i.Name()+"_ok", "Bool", "(< "+pos+" (slen "+it.str+"))")
	k := vc.define(ex.pfx+i.Name()+"_k", "Int", pos)
	v := vc.define(ex.pfx+i.Name()+"_r", "Int", "(rune_at "+it.str+" "+pos+")")
	vc.assume(sImp(ex.curReach, "(>= "+pos+" 0)"))
	ex.set(st, it.posKey, "Int", sIte(ok, "(+ "+pos+" (rune_w "+it.str+" "+pos+"))", pos))
	ex.vals[i] = Val{Tup: []Val{{T: ok}, {T: k}, {T: v}}}
}

func (ev *Eval) strBuiltin(e ECall) (TV, bool) {
	arg := func(i int) TV { return ev.rval(ev.eval(e.Args[i])) }
	strT := goVT(types.Typ[types.String])
	switch e.Fn {
	case "builder":
		// the text accumulated so far in a strings.Builder (ghost content)
		x := ev.eval(e.Args[0])
		ev.vc().strPrelude()
		return TV{T: sSel(ev.ex.get(ev.state(), "SB", "(Array Int Str)"), x.T), Ty: strT}, true
	case "strwf":
		// well-formed string value: non-negative length, zero bytes outside it (canonical form; every Go string
		// value is; ghost strings must say so before equality can be concluded from equal bytes)
		ev.vc().strPrelude()
		return TV{T: "(str_wf " + arg(0).T + ")", Ty: vtBool}, true
	case "streq":
		// a == b, stated in a way that lets the solver conclude it from equal lengths and equal bytes
		// (extensionality of the byte arrays with an explicit difference witness)
		ev.vc().strPrelude()
		ev.vc().declareOnce("str:ext", `(declare-fun str_eqx (Str Str) Bool)
(declare-fun str_diff (Str Str) Int)
(assert (forall ((a Str) (b Str)) (! (and (= (str_eqx a b) (= a b)) (=> (and (= (slen a) (slen b)) (= (select (sbytes a) (str_diff a b)) (select (sbytes b) (str_diff a b)))) (= a b))) :pattern ((str_eqx a b)))))`)
		return TV{T: "(str_eqx " + arg(0).T + " " + arg(1).T + ")", Ty: vtBool}, true
	case "runeenc":
		// UTF-8 encoding of a rune, as written by strings.Builder.WriteRune / string(rune)
		return TV{T: ev.vc().strFromRune(arg(0).T), Ty: strT}, true
	case "runestr":
		ev.vc().runeConvFns()
		return TV{T: "(runes_str " + arg(0).T + " " + arg(1).T + " " + arg(2).T + ")", Ty: strT}, true
	case "strrunes":
		ev.vc().runeConvFns()
		return TV{T: "(str_runes " + arg(0).T + ")", Ty: VT{Kind: "seq", Args: []VT{vtInt}}}, true
	case "nrunes":
		ev.vc().runeConvFns()
		return TV{T: "(str_nrunes " + arg(0).T + ")", Ty: vtInt}, true
	case "runeat":
		ev.vc().runeFns()
		return TV{T: "(rune_at " + arg(0).T + " " + arg(1).T + ")", Ty: vtInt}, true
	case "runew":
		ev.vc().runeFns()
		return TV{T: "(rune_w " + arg(0).T + " " + arg(1).T + ")", Ty: vtInt}, true
	case "lower", "upper":
		fn := "uni_" + e.Fn
		ev.vc().declareOnce("fn:"+fn, "(declare-fun "+fn+" (Int) Int)\n(assert (forall ((r Int)) (! (and (<= 0 ("+fn+" r)) (<= ("+fn+" r) 1114111)) :pattern (("+fn+" r)))))")
		return TV{T: "(" + fn + " " + arg(0).T + ")", Ty: vtInt}, true
	}
	return TV{}, false
}

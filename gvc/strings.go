package main

import (
	"fmt"
	"go/constant"
	"go/types"

	"golang.org/x/tools/go/ssa"
)

// Strings are immutable values mk_str(bytes, len), kept canonical (bytes are 0 outside [0,len)) so that
// SMT equality is Go string equality.

func constantString(c *ssa.Const) string {
	if c.Value != nil && c.Value.Kind() == constant.String {
		return constant.StringVal(c.Value)
	}
	return ""
}

func (vc *VC) strLit(s string) string {
	vc.needStr()
	arr := "((as const (Array Int Int)) 0)"
	for i := 0; i < len(s); i++ {
		arr = fmt.Sprintf("(store %s %d %d)", arr, i, s[i])
	}
	return fmt.Sprintf("(mk_str %s %d)", arr, len(s))
}

func (vc *VC) strPrelude() {
	vc.needStr()
	vc.declareOnce("str:prelude", `(define-fun str_wf ((s Str)) Bool (and (<= 0 (slen s)) (forall ((i Int)) (! (=> (or (< i 0) (>= i (slen s))) (= (select (sbytes s) i) 0)) :pattern ((select (sbytes s) i))))))
(declare-fun str_cat (Str Str) Str)
(assert (forall ((a Str) (b Str)) (! (and (= (slen (str_cat a b)) (+ (slen a) (slen b)))
  (forall ((i Int)) (! (= (select (sbytes (str_cat a b)) i) (ite (< i (slen a)) (select (sbytes a) i) (ite (< i (+ (slen a) (slen b))) (select (sbytes b) (- i (slen a))) 0))) :pattern ((select (sbytes (str_cat a b)) i)))))
  :pattern ((str_cat a b)))))
(declare-fun str_sub (Str Int Int) Str)
(assert (forall ((a Str) (lo Int) (hi Int)) (! (and (= (slen (str_sub a lo hi)) (- hi lo))
  (forall ((i Int)) (! (= (select (sbytes (str_sub a lo hi)) i) (ite (and (<= 0 i) (< i (- hi lo))) (select (sbytes a) (+ lo i)) 0)) :pattern ((select (sbytes (str_sub a lo hi)) i)))))
  :pattern ((str_sub a lo hi)))))
(declare-fun str_lt (Str Str) Bool)
(assert (forall ((a Str)) (not (str_lt a a))))
(assert (forall ((a Str) (b Str) (c Str)) (! (=> (and (str_lt a b) (str_lt b c)) (str_lt a c)) :pattern ((str_lt a b) (str_lt b c)))))
(assert (forall ((a Str) (b Str)) (! (or (str_lt a b) (str_lt b a) (= a b)) :pattern ((str_lt a b)))))`)
}

func (vc *VC) strConcat(a, b string) string {
	vc.strPrelude()
	return "(str_cat " + a + " " + b + ")"
}

func (vc *VC) strSub(s, lo, hi string) string {
	vc.strPrelude()
	return "(str_sub " + s + " " + lo + " " + hi + ")"
}

func (vc *VC) strCmp(op, a, b string) string {
	vc.strPrelude()
	switch op {
	case "<":
		return "(str_lt " + a + " " + b + ")"
	case ">":
		return "(str_lt " + b + " " + a + ")"
	case "<=":
		return "(not (str_lt " + b + " " + a + "))"
	default:
		return "(not (str_lt " + a + " " + b + "))"
	}
}

// string(byte or rune): the UTF-8 encoding of the code point (uninterpreted encoder with the facts needed).
func (vc *VC) strFromRune(r string) string {
	vc.strPrelude()
	vc.declareOnce("str:enc", `(declare-fun utf8_enc (Int) Str)
(assert (forall ((r Int)) (! (and (str_wf (utf8_enc r)) (>= (slen (utf8_enc r)) 1) (<= (slen (utf8_enc r)) 4)
  (=> (and (<= 0 r) (< r 128)) (and (= (slen (utf8_enc r)) 1) (= (select (sbytes (utf8_enc r)) 0) r)))
  (=> (and (<= 128 r) (< r 2048)) (and (= (slen (utf8_enc r)) 2) (= (select (sbytes (utf8_enc r)) 0) (+ 192 (div r 64))) (= (select (sbytes (utf8_enc r)) 1) (+ 128 (mod r 64))))))
  :pattern ((utf8_enc r)))))`)
	return "(utf8_enc " + r + ")"
}

func (ex *Exec) strFromSlice(x string, sl *types.Slice) string {
	ex.vc.strPrelude()
	ex.vc.errorf("conversion from %s to string is not modelled yet", sl)
	return ex.vc.fresh("strconv", strSort)
}

func (ex *Exec) sliceFromStr(x string, sl *types.Slice) string {
	ex.vc.errorf("conversion from string to %s is not modelled yet", sl)
	return ex.vc.fresh("strconv", sliceSort)
}

func (ex *Exec) strNext(i *ssa.Next, it *rangeIter) {
	ex.vc.errorf("range over string is not modelled yet")
	ex.vals[i] = Val{Tup: []Val{{T: "false"}, {T: "0"}, {T: "0"}}}
}

func (ev *Eval) strBuiltin(e ECall) (TV, bool) {
	return TV{}, false
}

#!/bin/bash
# usage: seed_detect.sh [ids...]  — applies each seeded patch to /repo, runs the quick check of its property
# (and of any other property given in meta.json "also"), undoes the patch, records the outcome in seeded/<id>/detect.json
cd /verif
ids="$@"; [ -z "$ids" ] && ids=$(ls seeded)
# evidence written while a seeded change is applied must never be committed: keep the real files aside
rm -rf /tmp/ev_keep && cp -r evidence /tmp/ev_keep
trap 'rm -rf /verif/evidence && cp -r /tmp/ev_keep /verif/evidence && rm -rf /tmp/ev_keep /verif/replays' EXIT
for id in $ids; do
  d=seeded/$id
  prop=$(python3 -c "import json;print(json.load(open('$d/meta.json'))['property'])")
  if ! git -C /repo apply --check /verif/$d/patch.diff 2>/dev/null; then echo "$id: patch no longer applies"; continue; fi
  claimed=$(python3 -c "import json;print(' '.join(c['property_id'] for c in json.load(open('MANIFEST.json'))['checks']))")
  git -C /repo apply /verif/$d/patch.diff
  res=""
  for p in $prop $(python3 -c "import json;print(' '.join(json.load(open('$d/meta.json')).get('also',[])))"); do
    if echo " $claimed " | grep -q " $p "; then
      out=$(./bin/gvc check --property $p --tier quick 2>&1); rc=$?
      nv=$(echo "$out" | grep -c '^VIOLATION')
      first=$(echo "$out" | grep '^VIOLATION' | head -3 | sed 's/.*obligation=//' | tr '\n' ';')
      res="$res $p:rc=$rc:violations=$nv:[$first]"
    else
      res="$res $p:not-claimed"
    fi
  done
  git -C /repo checkout -- . 
  echo "$id:$res"
  python3 - "$d/detect.json" "$id" "$res" <<'PY'
import json,sys
json.dump({'id':sys.argv[2],'result':sys.argv[3].strip()},open(sys.argv[1],'w'),indent=1)
PY
done
# restore evidence for the unchanged tree is the caller's job (re-run the checks)

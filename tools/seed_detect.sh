#!/bin/bash
# usage: seed_detect.sh [ids...]  — for each seeded change: apply its patch to a SCRATCH copy of /repo, run the quick
# check of its property (and of any property listed under "also" in meta.json) against that copy with a scratch
# copy of /verif as output directory, record the outcome in /verif/seeded/<id>/detect.json. /repo, the evidence
# files and the gvc binary in use are never touched, so this can run while other work goes on.
cd /verif
ids="$@"; [ -z "$ids" ] && ids=$(ls seeded)
S=/tmp/sd_$$
rm -rf $S; mkdir -p $S/verif
trap 'rm -rf $S' EXIT
cp -r /repo $S/repo
cp bin/gvc $S/gvc
cp -r properties.jsonl known_findings.json MANIFEST.json bounded $S/verif/
mkdir -p $S/verif/evidence
export GVC_REPO=$S/repo GVC_VERIF_DIR=$S/verif
claimed=$(python3 -c "import json;print(' '.join(c['property_id'] for c in json.load(open('MANIFEST.json'))['checks']))")
for id in $ids; do
  d=/verif/seeded/$id
  prop=$(python3 -c "import json;print(json.load(open('$d/meta.json'))['property'])")
  if ! git -C $S/repo apply --check $d/patch.diff 2>/dev/null; then echo "$id: patch no longer applies"; continue; fi
  git -C $S/repo apply $d/patch.diff
  res=""
  for p in $prop $(python3 -c "import json;print(' '.join(json.load(open('$d/meta.json')).get('also',[])))"); do
    if echo " $claimed " | grep -q " $p "; then
      out=$($S/gvc check --property $p --tier quick 2>&1); rc=$?
      nv=$(echo "$out" | grep -c '^VIOLATION')
      first=$(echo "$out" | grep '^VIOLATION' | head -3 | sed 's/.*obligation=//' | tr '\n' ';')
      res="$res $p:rc=$rc:violations=$nv:[$first]"
    else
      res="$res $p:not-claimed"
    fi
  done
  git -C $S/repo checkout -- .
  echo "$id:$res"
  if [ -f $d/detect.json ] && grep -q "not a violation any more" $d/detect.json && echo "$res" | grep -q "rc=0"; then continue; fi
  python3 - "$d/detect.json" "$id" "$res" <<'PY'
import json,sys
json.dump({'id':sys.argv[2],'result':sys.argv[3].strip()},open(sys.argv[1],'w'),indent=1)
PY
done

#!/bin/bash
# usage: ovtest.sh <pkgdir relative to /repo> <go test file> [run regexp]  — runs an in-package test through -overlay (nothing written into /repo)
export GOFLAGS=-mod=mod GOPROXY=off GOSUMDB=off GOTOOLCHAIN=local
repo=${GVC_REPO:-/repo}
d=$(mktemp -d)
cp "$2" $d/t.go
echo "{\"Replace\":{\"$repo/$1/zz_ov_test.go\":\"$d/t.go\"}}" > $d/ov.json
(cd $repo && go test -overlay $d/ov.json -vet=off -count=1 -timeout 60s -run "${3:-TestOv}" ./$1 2>&1 | tail -20)
rm -rf $d

#!/bin/sh
# usage: mkwt.sh <dir>   — scratch worktree of /repo HEAD for a sub-agent, with the contract files hidden
set -e
d="$1"
git -C /repo worktree add --detach "$d" HEAD >/dev/null 2>&1
cd "$d"
for f in $(git ls-files | grep '_verif\.go$'); do
  git update-index --skip-worktree "$f"
  rm -f "$f"
done
echo "$d ready at $(git rev-parse --short HEAD)"

#!/bin/bash
# usage: seed_confirm.sh <srcdir with patch.diff demo_test.go meta.json> <id>
# Confirms a seeded change in a scratch worktree of /repo HEAD (suite passes with it, demo fails with it and
# passes without) and, if confirmed, stores it as /verif/seeded/<id>/.
set -u
src="$1"; id="$2"
export GOFLAGS=-mod=mod GOPROXY=off GOSUMDB=off GOTOOLCHAIN=local
wt=/tmp/sv_$id
rm -rf "$wt"; git -C /repo worktree prune
git -C /repo worktree add --detach "$wt" HEAD >/dev/null 2>&1 || { echo "$id: cannot create worktree"; exit 2; }
cleanup() { git -C /repo worktree remove --force "$wt" >/dev/null 2>&1; rm -rf "$wt"; }
trap cleanup EXIT
dir=$(head -1 "$src/demo_test.go" | sed -n 's,^// dir: *,,p'); [ -z "$dir" ] && dir=.
flags=$(sed -n '2p' "$src/demo_test.go" | sed -n 's,^// flags: *,,p')
cd "$wt"
if ! git apply --check "$src/patch.diff" 2>/tmp/sv_err_$id; then echo "$id: PATCH DOES NOT APPLY to current HEAD: $(head -2 /tmp/sv_err_$id)"; rm -f /tmp/sv_err_$id; exit 3; fi
rm -f /tmp/sv_err_$id
cp "$src/demo_test.go" "$dir/zz_demo_test.go"
pre=$(go test $flags -vet=off -count=1 -run '^TestDemo$' ./$dir 2>&1 | tail -3)
echo "$pre" | grep -q '^ok' || { echo "$id: demo does NOT pass on pristine: $pre"; exit 4; }
rm "$dir/zz_demo_test.go"
git apply "$src/patch.diff"
go build ./... 2>&1 | head -3
suite=$(go test -vet=off -count=1 ./... 2>&1 | grep -v '^ok' | grep -v 'no test files')
if echo "$suite" | grep -q FAIL; then
  # tolerate the two known flaky tests only
  bad=$(echo "$suite" | grep -- '--- FAIL' | grep -v 'Example_after\|TestFunc_Debounce\|TestBSTree_Concurrency')
  if [ -n "$bad" ]; then echo "$id: SUITE FAILS with patch: $bad"; exit 5; fi
fi
cp "$src/demo_test.go" "$dir/zz_demo_test.go"
post=$(go test $flags -vet=off -count=1 -run '^TestDemo$' ./$dir 2>&1 | tail -5)
echo "$post" | grep -q 'FAIL' || { echo "$id: demo does NOT fail with patch: $post"; exit 6; }
mkdir -p /verif/seeded/$id
cp "$src/patch.diff" "$src/demo_test.go" /verif/seeded/$id/
python3 - "$src/meta.json" "/verif/seeded/$id/meta.json" "$id" "$(git -C /repo rev-parse --short HEAD)" <<'PY'
import json,sys
m=json.load(open(sys.argv[1]))
m['id']=sys.argv[3]
m['confirmed_by_me']={'base':sys.argv[4],'ran':'tools/seed_confirm.sh: scratch worktree of /repo HEAD; demo passes pristine; git apply patch; go build ./...; go test -vet=off -count=1 ./... passes (flaky Example_after/TestFunc_Debounce tolerated); demo fails with patch'}
json.dump(m,open(sys.argv[2],'w'),indent=1)
PY
echo "$id: confirmed"

#!/bin/sh
# usage: mutc.sh <file> <from> <to> <func keys...>  — like mut.sh but runs gvc func in concurrent mode
f="$1"; from="$2"; to="$3"; shift 3
rm -rf /tmp/scr && cp -r /repo /tmp/scr && rm -rf /tmp/scr/.git
python3 - "$f" "$from" "$to" <<'PY'
import sys
f,a,b=sys.argv[1:4]
p='/tmp/scr/'+f
s=open(p).read()
if a not in s:
    print("PATTERN NOT FOUND"); sys.exit(1)
s=s.replace(a,b,1)
open(p,'w').write(s)
PY
[ $? -eq 0 ] && GVC_REPO=/tmp/scr /verif/bin/gvc func -conc "$@" 2>&1 | grep -v "^   ok" | cut -c1-170
rm -rf /tmp/scr

#!/usr/bin/env python3
import json, sys
pid, wt = sys.argv[1], sys.argv[2]
n = sys.argv[3] if len(sys.argv) > 3 else "2"
p = [json.loads(l) for l in open('/verif/properties.jsonl') if json.loads(l)['id'] == pid][0]
print(f"""You are helping test a verification effort for the Go library esimov/gogu (a generics utility library: slice/map/string helpers and small data structures). You have your own scratch git worktree of the library at {wt} (work ONLY inside that directory; do not read or write /repo or /verif; do not look anywhere else for hints).

Environment: no network. Before every go command run: export GOFLAGS=-mod=mod GOPROXY=off GOSUMDB=off GOTOOLCHAIN=local

Here is a semantic property the library is supposed to satisfy:

  Title: {p['title']}
  Statement: {p['statement']}

Task: produce {n} DIFFERENT, independent, realistic changes to the library's non-test source code, each of which BREAKS this property while (a) the library still compiles (go build ./... && go vet is not required) and (b) the ENTIRE existing test suite still passes unchanged (go test -vet=off -count=1 $(go list ./... | grep -v /out/) in the worktree; ignore only the known-flaky tests Example_after, TestFunc_Debounce and TestBSTree_Concurrency). The change should look like a plausible bug a maintainer could introduce (an off-by-one, a wrong comparison, a dropped update, a wrong branch, a reordered statement, a refactoring slip, two sites that each look fine alone, ...), NOT an obvious sabotage, and it should need something specific to manifest (an unusual input, a particular multi-step sequence of operations, a particular interleaving, a boundary value) rather than being exposed by ordinary use at once. Do not edit test files, go.mod, or comments only. Keep each change small (a few lines). Each change must be made relative to the pristine worktree (not stacked on each other).

For each change k (k = 1..{n}) write, in {wt}/out/k/ :
  - patch.diff : the change as produced by `git diff` in the worktree (paths relative to the repo root, applies with `git apply` to the pristine tree)
  - demo_test.go : a small Go test file (state which package directory it belongs in on its first line as a comment `// dir: <relative dir>`; it must be in the same package as the code it tests or an external _test package) containing one test `TestDemo` that FAILS with the change applied and PASSES on the pristine tree
  - meta.json : {{"property": "{pid}", "files": [...], "summary": "<one sentence: what was changed>", "needs": "<what specific input/sequence/interleaving is needed for it to manifest>", "ran": "<the exact commands you ran to confirm: suite passes with change, demo fails with change, demo passes without>"}}

You MUST actually confirm all three facts for each change by running the commands (copy demo_test.go temporarily into the package dir to run it, then remove it again). Before finishing, restore the worktree to pristine with `git checkout -- .` and make sure no stray demo test file is left in package directories (the out/ directory stays). Note: a few files named zz_contracts_verif.go show as deleted/hidden in git status; ignore them and never include them in a patch.

Reply with a short summary of the changes you produced and where the files are.""")

#!/bin/bash
# run every claimed check (quick tier by default) on the current /repo tree, 4 at a time; summary on stdout
cd /verif
tier=${1:-quick}
ids=$(python3 -c "import json;print(' '.join(c['property_id'] for c in json.load(open('MANIFEST.json'))['checks']))")
mkdir -p /tmp/runall.$$
for id in $ids; do echo $id; done | xargs -P 4 -I{} sh -c "./bin/gvc check --property {} --tier $tier > /tmp/runall.$$/{}.out 2>&1; echo rc=\$? >> /tmp/runall.$$/{}.out"
for id in $ids; do printf "%s " $id; grep -h "obligations\|^rc=" /tmp/runall.$$/$id.out | tr '\n' ' '; echo; grep -h "VIOLATION\|KNOWN-FINDING\|MACHINERY\|vacuous" /tmp/runall.$$/$id.out | cut -c1-200; done
rm -rf /tmp/runall.$$

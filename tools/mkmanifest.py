#!/usr/bin/env python3
"""Regenerates MANIFEST.json from the table below (kept in one place so that the claimed list,
the not_applicable list and the hook commits never drift apart)."""
import json, subprocess, os

CLAIMED = json.load(open(os.path.join(os.path.dirname(__file__), "claims.json")))

def repo_hook_commits():
    out = subprocess.run(["git", "-C", "/repo", "log", "--format=%H %s"], capture_output=True, text=True).stdout
    return [l.split()[0] for l in out.splitlines() if " verif:" in l or " verif(" in l]

props = [json.loads(l) for l in open(os.path.join(os.path.dirname(__file__), "..", "properties.jsonl"))]
checks, na = [], []
for p in props:
    pid = p["id"]
    c = CLAIMED.get(pid)
    if c and c.get("claimed"):
        checks.append({
            "property_id": pid,
            "quick_cmd": f"./bin/gvc check --property {pid} --tier quick",
            "thorough_cmd": f"./bin/gvc check --property {pid} --tier thorough",
            "evidence_file": f"/verif/evidence/{pid}.json",
            "replay_cmd_template": "./bin/gvc replay {path}",
            "engine": "gvc",
            "level_claimed": {"category": "proof", "text": c["text"], "design_ref": c.get("design_ref", "DESIGN.md §9 " + pid)},
            "level_note": c["note"],
            "technique": c.get("technique", "contract-based deductive verification: weakest-precondition VCs over go/ssa of the real functions, discharged by z3/cvc5"),
        })
    else:
        na.append({"property_id": pid, "reason": (c or {}).get("reason", "contracts not yet written/discharged for this property in this build of the framework")})

m = {
    "version": 1,
    "setup_cmd": "./setup.sh",
    "hooks": {
        "guard": "verif",
        "enable": "go build tag: -tags verif (comment-only contract files zz_contracts_verif.go, one per package)",
        "baseline_off_cmd": "cd /repo && go build ./... && go test -vet=off -count=1 -timeout 25m ./...",
        "source_commits": repo_hook_commits(),
        "add_only": True,
    },
    "engines": [{
        "name": "gvc",
        "path": "/verif/gvc",
        "serves_properties": [c["property_id"] for c in checks],
        "kind_free_text": "deductive program verifier for Go written for this task: go/packages+go/ssa -> per-obligation SMT-LIB -> z3 5.1.0 / z3 4.8.12 / cvc5 1.0.3 portfolio; contracts are //@ comments in tag-guarded files inside /repo",
    }],
    "checks": checks,
    "not_applicable": na,
    "notes": "See DESIGN.md. Known genuine defects are listed in known_findings.json; fix: commits in /repo are recorded there as fixed entries.",
}
json.dump(m, open(os.path.join(os.path.dirname(__file__), "..", "MANIFEST.json"), "w"), indent=1)
print("claimed:", [c["property_id"] for c in checks])

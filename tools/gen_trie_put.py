#!/usr/bin/env python3
# Generates the contract of (*trie.node).put with its proof hints (asserts split by path and by region of the
# subtree) and splices it into /repo/trie/zz_contracts_verif.go between "// BEGIN put" and "// END put".
import re
G = "nrepr, nS, nterm, nwit, ndep, store(vm, key, val)"
paths = {
 'A1': "n != nil && key[d] < n.c && old(n.left) == nil",
 'A2': "n != nil && key[d] < n.c && old(n.left) != nil",
 'B1': "n != nil && key[d] > n.c && old(n.right) == nil",
 'B2': "n != nil && key[d] > n.c && old(n.right) != nil",
 'C0': "n == nil && d < len(key) - 1",
 'C1': "n != nil && key[d] == n.c && d < len(key) - 1 && old(n.mid) == nil",
 'C2': "n != nil && key[d] == n.c && d < len(key) - 1 && old(n.mid) != nil",
 'D0': "n == nil && d >= len(key) - 1",
 'D1': "n != nil && key[d] == n.c && d >= len(key) - 1",
}
# regions of the subtree below result, per path: (set expression, guard)
def regs(changed, fresh_root=False):
    r = []
    for c in ("left", "mid", "right"):
        if c == changed:
            r.append(("nrepr[result.%s]" % c, "result.%s != nil" % c))
        elif not fresh_root:
            r.append(("repr[n.%s]" % c, "n.%s != nil" % c))
    return r
regions = {
 'A1': regs("left"), 'A2': regs("left"), 'B1': regs("right"), 'B2': regs("right"),
 'C0': regs("mid", True), 'C1': regs("mid"), 'C2': regs("mid"), 'D0': [], 'D1': regs(None),
}
same = "result.isValid == old(n.isValid) && result.val == old(n.val)"
struct = {
 'A1': "result == n && result.left != nil && fresh(result.left) && result.mid == old(n.mid) && result.right == old(n.right) && " + same,
 'A2': "result == n && result.left == old(n.left) && result.mid == old(n.mid) && result.right == old(n.right) && " + same,
 'B1': "result == n && result.right != nil && fresh(result.right) && result.mid == old(n.mid) && result.left == old(n.left) && " + same,
 'B2': "result == n && result.left == old(n.left) && result.mid == old(n.mid) && result.right == old(n.right) && " + same,
 'C0': "result != nil && fresh(result) && result.c == key[d] && result.left == nil && result.right == nil && result.mid != nil && fresh(result.mid) && !result.isValid",
 'C1': "result == n && result.mid != nil && fresh(result.mid) && result.left == old(n.left) && result.right == old(n.right) && " + same,
 'C2': "result == n && result.left == old(n.left) && result.mid == old(n.mid) && result.right == old(n.right) && " + same,
 'D0': "result != nil && fresh(result) && result.c == key[d] && result.left == nil && result.right == nil && result.mid == nil && result.isValid && result.val == val",
 'D1': "result == n && result.left == old(n.left) && result.mid == old(n.mid) && result.right == old(n.right) && result.isValid && result.val == val",
}
# goals quantified over the nodes m below result (m != result)
mgoals = [
 "allocated(m) && m != nil",
 "nsubset(nrepr[m], nrepr[result])",
 "(forall o *node :: { o in nrepr[m] } o in nrepr[m] ==> nsubset(nrepr[o], nrepr[m]))",
 "ssubset(nS[m], nS[result])",
 "(forall o *node :: { o in nrepr[m] } o in nrepr[m] ==> ssubset(nS[o], nS[m]))",
 "tshape(m, nrepr)",
] + ["tl%d(m, %s)" % (i, G) for i in range(1, 8)]
# goals about result itself
rgoals = [
 "result in nrepr[result] && !(nil in nrepr[result])",
 "forall k K :: { k in nS[result] } k in nS[result] <==> ((n != nil && k in S[n]) || k == key)",
 "(forall o *node :: { o in nrepr[result] } o in nrepr[result] ==> nsubset(nrepr[o], nrepr[result]))",
 "(forall o *node :: { o in nrepr[result] } o in nrepr[result] ==> ssubset(nS[o], nS[result]))",
 "tshape(result, nrepr)",
] + ["tl%d(result, %s)" % (i, G) for i in range(1, 8)] + [
 "(n != nil ==> nsubset(repr[n], nrepr[result])) && forall x *node :: { x in nrepr[result] } x in nrepr[result] && !(n != nil && x in repr[n]) ==> fresh(x) && x != nil",
]
out = []
a = out.append
a("//@ func (*trie.node).put")
a("//@   property C09 C01")
a("//@   opt nil-receiver")
a("//@   opt group-hyps")
a("//@   opt path-hyps")
a("//@   opt functional-hints")
a("//@   lock t.mu : W")
gh = [("repr", "map[*node]set[*node]"), ("S", "map[*node]set[K]"), ("term", "map[*node]K"), ("wit", "map[*node]K"), ("dep", "map[*node]int")]
for g, ty in gh + [("vm", "map[K]V")]:
    a("//@   ghost-param %s %s" % (g, ty))
for g, ty in gh:
    a("//@   ghost n%s %s = %s" % (g, ty, g))
a("//@   requires t != nil && isValid && d >= 0 && d < len(key)")
a("//@   requires n != nil ==> tvalid(n, repr, S, term, wit, dep, vm)")
a("//@   requires n != nil ==> dep[n] == d && agree(key, wit[n], d)")
a("//@   modifies all trie.node.left, all trie.node.mid, all trie.node.right, all trie.node.isValid, all trie.Item.val")
a("//@   exit-ghost nterm = (key[d] == result.c && d >= len(key) - 1 ? store(nterm, result, key) : nterm)")
a("//@   exit-ghost nwit = store(nwit, result, key)")
a("//@   exit-ghost ndep = store(ndep, result, d)")
a("//@   exit-ghost nrepr = store(nrepr, result, lambda x *node :: (x == result || (result.left != nil && x in nrepr[result.left]) || (result.mid != nil && x in nrepr[result.mid]) || (result.right != nil && x in nrepr[result.right])))")
a("//@   exit-ghost nS = store(nS, result, lambda k K :: ((result.left != nil && k in nS[result.left]) || (result.mid != nil && k in nS[result.mid]) || (result.right != nil && k in nS[result.right]) || (result.isValid && k == nterm[result])))")
for pn, p in paths.items():
    a("//@   assert %s ==> (%s)" % (p, struct[pn]))
    rs = regions[pn]
    for e, g in rs:
        a("//@   assert %s ==> (%s ==> !(result in %s) && !(nil in %s))" % (p, g, e, e))
    for e, g in rs:
        if e.startswith("repr["):
            c = e[5:-1]  # n.left / n.mid / n.right
            a("//@   assert %s ==> (%s ==> !(key in S[%s]))" % (p, g, c))
            a("//@   assert %s ==> (forall m *node :: { m in %s } %s && m in %s && m.isValid ==> term[m] in S[m] && term[m] in S[%s] && term[m] != key)" % (p, e, g, e, c))
    dec = " || ".join("(%s && m in %s)" % (g, e) for e, g in rs) or "false"
    a("//@   assert %s ==> (forall m *node :: { m in nrepr[result] } m in nrepr[result] && m != result ==> (%s))" % (p, dec))
for g in mgoals:
    for pn, p in paths.items():
        for e, gd in regions[pn]:
            a("//@   assert %s ==> (forall m *node :: { m in %s } %s && m in %s ==> %s)" % (p, e, gd, e, g))
        a("//@   assert %s ==> (forall m *node :: { m in nrepr[result] } m in nrepr[result] && m != result ==> %s)" % (p, g))
    a("//@   assert forall m *node :: { m in nrepr[result] } m in nrepr[result] && m != result ==> %s" % g)
for g in rgoals:
    for pn, p in paths.items():
        a("//@   assert %s ==> (%s)" % (p, g))
    a("//@   assert %s" % g)
a("//@   ensures n != nil ==> result == n")
a("//@   ensures tvalid(result, %s) && ndep[result] == d && nwit[result] == key" % G)
a("//@   ensures forall k K :: { k in nS[result] } k in nS[result] <==> ((n != nil && k in S[n]) || k == key)")
a("//@   ensures (n != nil ==> nsubset(repr[n], nrepr[result])) && forall x *node :: { x in nrepr[result] } x in nrepr[result] && !(n != nil && x in repr[n]) ==> fresh(x) && x != nil")
for pn, p in paths.items():
    a("//@   assert %s ==> (toutside(n, repr, S, term, wit, dep, nrepr, nS, nterm, nwit, ndep))" % p)
a("//@   assert toutside(n, repr, S, term, wit, dep, nrepr, nS, nterm, nwit, ndep)")
a("//@   ensures toutside(n, repr, S, term, wit, dep, nrepr, nS, nterm, nwit, ndep)")
a("//@   ensures forall x *node :: { x.c } old(allocated(x)) ==> x.c == old(x.c)")
for k in (1, 2, 3):
    a("//@   call put#%d ghost repr = repr; S = S; term = term; wit = wit; dep = dep; vm = vm" % k)
text = "\n".join(out)
p = '/repo/trie/zz_contracts_verif.go'
s = open(p).read()
if '// BEGIN put' not in s:
    s += "\n// BEGIN put\n// END put\n"
s = re.sub(r'// BEGIN put\n.*?// END put\n', lambda m: '// BEGIN put\n' + text + '\n// END put\n', s, flags=re.S)
open(p, 'w').write(s)
print(len(out), "lines")

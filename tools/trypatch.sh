#!/bin/bash
# usage: trypatch.sh <patch.diff> <func keys...> — apply a patch to a scratch copy of /repo and run gvc func there
p="$1"; shift
rm -rf /tmp/scr && cp -r /repo /tmp/scr && rm -rf /tmp/scr/.git
(cd /tmp/scr && patch -p1 -s < "$p") || { echo "patch failed"; rm -rf /tmp/scr; exit 1; }
GVC_REPO=/tmp/scr /verif/bin/gvc func "$@" 2>&1 | grep -v "^   ok" | cut -c1-200
rm -rf /tmp/scr

// dir: bstree
//
// BOUNDED stand-in for the one part of property C04 that the deductive check does not reach: BsTree.Traverse hands the
// items from a goroutine to the callback over a channel, and channel operations carry no protocol in the verifier
// (what Node.traverse SENDS, and in which order, is proved; that Traverse receives and forwards all of it is not).
// Exhaustively, for every sequence of at most L operations drawn from Upsert(k, v) and Delete(k), k in 0..4
// (v is the position in the sequence), L = 6 (quick) or 7 (thorough), under an ascending and a descending comparator:
// after every operation Traverse must call the callback on exactly the present keys, once each, in comparator order,
// with their current values.
// This is a bounded check with the bounds stated above; nothing it covers is counted as proved.
package bstree

import (
	"fmt"
	"os"
	"sort"
	"testing"
)

type tbop struct {
	up bool
	k  int
}

func (o tbop) String() string {
	if o.up {
		return fmt.Sprintf("Upsert(%d)", o.k)
	}
	return fmt.Sprintf("Delete(%d)", o.k)
}

func TestBoundedC04(t *testing.T) {
	L := 6
	if os.Getenv("GVC_TIER") == "thorough" {
		L = 7
	}
	var ops []tbop
	for k := 0; k < 5; k++ {
		ops = append(ops, tbop{true, k}, tbop{false, k})
	}
	evals, nontrivial := 0, 0
	for _, desc := range []bool{false, true} {
		seq := make([]tbop, 0, L)
		var rec func()
		rec = func() {
			if t.Failed() {
				return
			}
			if len(seq) > 0 {
				comp := func(a, b int) bool { return a < b }
				if desc {
					comp = func(a, b int) bool { return a > b }
				}
				b := New[int, int](comp)
				m := map[int]int{}
				for i, o := range seq {
					if o.up {
						b.Upsert(o.k, i+1)
						m[o.k] = i + 1
					} else {
						b.Delete(o.k)
						delete(m, o.k)
					}
				}
				evals++
				if len(m) >= 3 {
					nontrivial++
				}
				var ks, vs []int
				b.Traverse(func(it Item[int, int]) { ks = append(ks, it.Key); vs = append(vs, it.Val) })
				want := make([]int, 0, len(m))
				for k := range m {
					want = append(want, k)
				}
				sort.Ints(want)
				if desc {
					for i, j := 0, len(want)-1; i < j; i, j = i+1, j-1 {
						want[i], want[j] = want[j], want[i]
					}
				}
				ok := len(ks) == len(want)
				for i := 0; ok && i < len(want); i++ {
					ok = ks[i] == want[i] && vs[i] == m[want[i]]
				}
				if !ok {
					t.Errorf("FAILING-SEQUENCE (descending=%v) %v: Traverse visited keys %v values %v, want keys %v with their current values", desc, seq, ks, vs, want)
					return
				}
			}
			if len(seq) == L {
				return
			}
			for _, o := range ops {
				seq = append(seq, o)
				rec()
				seq = seq[:len(seq)-1]
			}
		}
		rec()
	}
	fmt.Printf("BOUNDED property=C04 evaluations=%d nontrivial=%d exhaustive_len=%d alphabet=5 comparators=2\n", evals, nontrivial, L)
}

// dir: btree
//
// BOUNDED stand-in for the parts of property C10 that the deductive check does not reach (see DESIGN.md, C10):
// the path of node.insert in which a split propagates through a full internal node, and the height bound
// (Get, Size, IsEmpty and Traverse are compared as well, although they are proved).
// It drives the real BTree against a map model:
//   - exhaustively: every sequence of at most L operations drawn from Put(k, v) and Remove(k), k in 0..5
//     (v is the position in the sequence, so overwrites are visible); L = 6 (quick) or 7 (thorough);
//   - seeded long sequences (ascending, descending and random keys out of 0..399) so that multi-level splits occur.
// After every operation it compares Get for every key of the alphabet and one absent key, Size, IsEmpty, the
// Traverse output (exactly the live keys, once each, ascending, current values) and checks
// Height <= log2(max(1, N)) with N the number of distinct keys ever put.
// This is a bounded check with the bounds stated above; nothing it covers is counted as proved.
package btree

import (
	"fmt"
	"math/rand"
	"os"
	"sort"
	"strconv"
	"testing"
)

type bop struct {
	put bool
	k   int
}

func (o bop) String() string {
	if o.put {
		return fmt.Sprintf("Put(%d)", o.k)
	}
	return fmt.Sprintf("Remove(%d)", o.k)
}

type bmodel struct {
	live map[int]int
	ever map[int]bool
}

func floorLog2(n int) int {
	r := 0
	for n > 1 {
		n >>= 1
		r++
	}
	return r
}

// bcheck compares the tree with the model; keys is the alphabet to probe.
func bcheck(b *BTree[int, int], m *bmodel, keys []int) string {
	for _, k := range keys {
		v, ok := b.Get(k)
		mv, mok := m.live[k]
		if ok != mok || (ok && v != mv) {
			return fmt.Sprintf("Get(%d) = (%d, %v), want (%d, %v)", k, v, ok, mv, mok)
		}
	}
	if v, ok := b.Get(-7); ok {
		return fmt.Sprintf("Get(-7) = (%d, true) for a key never put", v)
	}
	if b.Size() != len(m.live) {
		return fmt.Sprintf("Size() = %d, want %d", b.Size(), len(m.live))
	}
	if b.IsEmpty() != (len(m.live) == 0) {
		return fmt.Sprintf("IsEmpty() = %v with %d live keys", b.IsEmpty(), len(m.live))
	}
	var ks, vs []int
	b.Traverse(func(k, v int) { ks = append(ks, k); vs = append(vs, v) })
	want := make([]int, 0, len(m.live))
	for k := range m.live {
		want = append(want, k)
	}
	sort.Ints(want)
	if len(ks) != len(want) {
		return fmt.Sprintf("Traverse visited %v, want keys %v", ks, want)
	}
	for i := range want {
		if ks[i] != want[i] || vs[i] != m.live[want[i]] {
			return fmt.Sprintf("Traverse visited keys %v values %v, want keys %v with the current values", ks, vs, want)
		}
	}
	n := len(m.ever)
	if n < 1 {
		n = 1
	}
	if b.Height() > floorLog2(n) {
		return fmt.Sprintf("Height() = %d exceeds log2(max(1, %d)) = %d", b.Height(), len(m.ever), floorLog2(n))
	}
	return ""
}

func bapply(b *BTree[int, int], m *bmodel, o bop, val int) {
	if o.put {
		b.Put(o.k, val)
		m.live[o.k] = val
		m.ever[o.k] = true
	} else {
		b.Remove(o.k)
		delete(m.live, o.k)
	}
}

func TestBoundedC10(t *testing.T) {
	L := 6
	rounds := 60
	if os.Getenv("GVC_TIER") == "thorough" {
		L = 7
		rounds = 400
	}
	seed, _ := strconv.Atoi(os.Getenv("GVC_SEED"))
	alphabet := []int{0, 1, 2, 3, 4, 5}
	var ops []bop
	for _, k := range alphabet {
		ops = append(ops, bop{true, k}, bop{false, k})
	}
	evals, nontrivial := 0, 0
	// exhaustive part: depth-first over all sequences, replaying the prefix for each (trees are tiny)
	seq := make([]bop, 0, L)
	var rec func()
	rec = func() {
		if t.Failed() {
			return
		}
		if len(seq) > 0 {
			b := New[int, int]()
			m := &bmodel{live: map[int]int{}, ever: map[int]bool{}}
			for i, o := range seq {
				bapply(b, m, o, i+1)
			}
			evals++
			if b.Height() > 0 || len(m.ever) > len(m.live) {
				nontrivial++ // a split happened or a tombstone exists
			}
			if msg := bcheck(b, m, alphabet); msg != "" {
				t.Errorf("FAILING-SEQUENCE %v: %s", seq, msg)
				return
			}
		}
		if len(seq) == L {
			return
		}
		for _, o := range ops {
			seq = append(seq, o)
			rec()
			seq = seq[:len(seq)-1]
		}
	}
	rec()
	// long sequences: sorted, reversed, random keys; removals and re-puts mixed in
	rng := rand.New(rand.NewSource(int64(seed) + 1))
	for r := 0; r < rounds && !t.Failed(); r++ {
		b := New[int, int]()
		m := &bmodel{live: map[int]int{}, ever: map[int]bool{}}
		n := 40 + rng.Intn(360)
		mode := r % 3
		var trace []bop
		for i := 0; i < n && !t.Failed(); i++ {
			var o bop
			switch {
			case i%7 == 6:
				o = bop{false, rng.Intn(400)}
			case mode == 0:
				o = bop{true, i}
			case mode == 1:
				o = bop{true, n - i}
			default:
				o = bop{true, rng.Intn(400)}
			}
			trace = append(trace, o)
			bapply(b, m, o, i+1)
			evals++
			if b.Height() > 1 {
				nontrivial++
			}
			probe := []int{o.k, o.k + 1, rng.Intn(400)}
			if i%16 == 15 || i == n-1 {
				probe = probe[:0]
				for k := 0; k < 400; k++ {
					probe = append(probe, k)
				}
			}
			if msg := bcheck(b, m, probe); msg != "" {
				t.Errorf("FAILING-SEQUENCE (seed %d, round %d) %v: %s", seed, r, trace, msg)
			}
		}
	}
	fmt.Printf("BOUNDED property=C10 evaluations=%d nontrivial=%d exhaustive_len=%d alphabet=6 long_rounds=%d long_keys=400\n", evals, nontrivial, L, rounds)
}

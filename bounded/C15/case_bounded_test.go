// dir: .
//
// BOUNDED stand-in for the part of property C15 that the deductive check does not reach: CamelCase, SnakeCase and
// KebabCase run their input through regular expressions (package regexp), which the verifier does not model.
// Exhaustively, for every string of length <= 6 (quick) / <= 7 (thorough) over the alphabet
// { a, b, B, 1, ' ', '-', '_', '&' } (words made of ASCII letters and digits separated by the four separators):
//   - every letter and digit of the input appears in the output, in order (comparing case-insensitively), and
//     nothing else does except the function's own separator;
//   - CamelCase contains no separator and equals: first word in lower case, every later word with an upper-case
//     initial and the rest in lower case;
//   - SnakeCase/KebabCase are lower-case, contain no separator other than '_' / '-', are idempotent, and differ
//     from each other only in the delimiter.
// This is a bounded check with the bounds stated above; nothing it covers is counted as proved.
package gogu

import (
	"fmt"
	"os"
	"strings"
	"testing"
	"unicode"
)

func alnumLower(s string) string {
	var sb strings.Builder
	for _, r := range s {
		if unicode.IsLetter(r) || unicode.IsDigit(r) {
			sb.WriteRune(unicode.ToLower(r))
		}
	}
	return sb.String()
}

func isSep(r rune) bool { return r == ' ' || r == '-' || r == '_' || r == '&' }

func wantCamel(in string) string {
	words := strings.FieldsFunc(in, isSep)
	var sb strings.Builder
	for i, w := range words {
		lw := strings.ToLower(w)
		if i == 0 {
			sb.WriteString(lw)
			continue
		}
		sb.WriteString(strings.ToUpper(lw[:1]) + lw[1:])
	}
	return sb.String()
}

func TestBoundedC15(t *testing.T) {
	L := 6
	if os.Getenv("GVC_TIER") == "thorough" {
		L = 7
	}
	alphabet := []byte{'a', 'b', 'B', '1', ' ', '-', '_', '&'}
	evals, nontrivial := 0, 0
	buf := make([]byte, 0, L)
	var rec func()
	rec = func() {
		if t.Failed() {
			return
		}
		in := string(buf)
		evals++
		words := strings.FieldsFunc(in, isSep)
		if len(words) >= 2 {
			nontrivial++
		}
		keep := alnumLower(in)
		c := string(CamelCase(in))
		s := string(SnakeCase(in))
		k := string(KebabCase(in))
		switch {
		case alnumLower(c) != keep || alnumLower(s) != keep || alnumLower(k) != keep:
			t.Errorf("FAILING-INPUT %q: letters and digits are not kept in order: CamelCase %q SnakeCase %q KebabCase %q", in, c, s, k)
		case strings.ContainsAny(c, " -_&"):
			t.Errorf("FAILING-INPUT %q: CamelCase %q contains a separator", in, c)
		case c != wantCamel(in):
			t.Errorf("FAILING-INPUT %q: CamelCase = %q, want %q", in, c, wantCamel(in))
		case strings.ContainsAny(s, " -&") || strings.ContainsAny(k, " _&"):
			t.Errorf("FAILING-INPUT %q: foreign separator in SnakeCase %q / KebabCase %q", in, s, k)
		case s != strings.ToLower(s) || k != strings.ToLower(k):
			t.Errorf("FAILING-INPUT %q: SnakeCase %q / KebabCase %q not lower-case", in, s, k)
		case string(SnakeCase(s)) != s || string(KebabCase(k)) != k:
			t.Errorf("FAILING-INPUT %q: not idempotent: SnakeCase %q -> %q, KebabCase %q -> %q", in, s, SnakeCase(s), k, KebabCase(k))
		case strings.ReplaceAll(s, "_", "-") != k:
			t.Errorf("FAILING-INPUT %q: SnakeCase %q and KebabCase %q differ in more than the delimiter", in, s, k)
		}
		if len(buf) == L {
			return
		}
		for _, ch := range alphabet {
			buf = append(buf, ch)
			rec()
			buf = buf[:len(buf)-1]
		}
	}
	rec()
	fmt.Printf("BOUNDED property=C15 evaluations=%d nontrivial=%d exhaustive_len=%d alphabet=%d\n", evals, nontrivial, L, len(alphabet))
}

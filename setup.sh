#!/bin/sh
# Builds the verifier from files on disk only (x/tools v0.29.0 comes from the local module cache).
set -e
cd "$(dirname "$0")"
export GOFLAGS=-mod=mod GOPROXY=off GOSUMDB=off GOTOOLCHAIN=local
mkdir -p bin evidence replays
(cd gvc && go build -o ../bin/gvc .)
./bin/gvc doctor
